#!/usr/bin/env python3
"""Runs the repository's baseline test command (guard off) on /repo's working tree and compares the
results with /root/.vp/BASELINE.json stable_pass. usage: run_baseline.py [outfile]"""
import json, subprocess, sys, os
b = json.load(open("/root/.vp/BASELINE.json"))
out = sys.argv[1] if len(sys.argv) > 1 else "/var/tmp/baseline_run.json"
raw = out + ".raw"
with open(raw, "w") as f:
    subprocess.run(["bash", "-c", b["cmd"]], stdout=f, stderr=subprocess.STDOUT)
res = {}
for line in open(raw, errors="replace"):
    line = line.strip()
    if not line.startswith("{"):
        continue
    try:
        e = json.loads(line)
    except Exception:
        continue
    if e.get("Action") in ("pass", "fail", "skip") and e.get("Test"):
        res[f"{e['Package']}::{e['Test']}"] = e["Action"]
missing = [t for t in b["stable_pass"] if res.get(t) != "pass"]
print(f"tests seen: {len(res)}; stable_pass expected {len(b['stable_pass'])}; not passing: {len(missing)}")
for t in missing[:40]:
    print("  NOT PASS:", t, res.get(t))
json.dump({"missing": missing, "n": len(res)}, open(out, "w"))
sys.exit(1 if missing else 0)
