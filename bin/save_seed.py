#!/usr/bin/env python3
"""Stores a confirmed seeded change under /verif/seeded/<name>/ (patch.diff, demo_test.go, notes.md, meta.json).
usage: save_seed.py <name> <property> <out-dir of the agent> <seedval.json> <demo dest> <demo cmd> <needs> <detected-by json>"""
import json, os, shutil, sys
name, prop, out, seedval, dest, cmd, needs, detected = sys.argv[1:9]
d = f"/verif/seeded/{name}"
os.makedirs(d, exist_ok=True)
shutil.copy(os.path.join(out, "patch.diff"), os.path.join(d, "patch.diff"))
shutil.copy(os.path.join(out, "demo_test.go"), os.path.join(d, "demo_test.go"))
if os.path.exists(os.path.join(out, "notes.md")):
    shutil.copy(os.path.join(out, "notes.md"), os.path.join(d, "agent_notes.md"))
sv = json.load(open(seedval))
meta = {
    "property": prop,
    "origin": "independent sub-agent given only the property text and a scratch worktree of /repo",
    "needs_to_manifest": needs,
    "demonstration": {"file": "demo_test.go", "copy_to": dest, "command": cmd},
    "confirmed_in_scratch_clone": {
        "how": "bin/verify_seed.py: fresh clone of /repo under /var/tmp, patch applied, `go test -json ./...` compared with BASELINE stable_pass, demo run with and without the patch; clone removed afterwards",
        "builds": sv["builds"],
        "baseline_suite_passes_with_change": sv["baseline_passes_with_change"],
        "demo_fails_with_change": sv["demo_fails_with_change"],
        "demo_passes_without_change": sv["demo_passes_without_change"],
    },
    "checks_run_against_it": json.loads(detected),
}
json.dump(meta, open(os.path.join(d, "meta.json"), "w"), indent=1)
print("saved", d)
