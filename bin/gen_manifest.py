#!/usr/bin/env python3
"""Regenerates /verif/MANIFEST.json from bin/checks_table.py (claimed checks) and properties.jsonl."""
import json, os, sys
VERIF = os.path.dirname(os.path.dirname(os.path.abspath(__file__)))
sys.path.insert(0, os.path.join(VERIF, "bin"))
from checks_table import CHECKS, NOT_APPLICABLE, HOOK_COMMITS

props = [json.loads(l) for l in open(os.path.join(VERIF, "properties.jsonl"))]
baseline = json.load(open("/root/.vp/BASELINE.json"))["cmd"]
m = {
    "version": 1,
    "setup_cmd": "/verif/bin/check --build",
    "hooks": {
        "guard": "verif",
        "enable": "go test -c -tags verif (the harness module /verif/harness replaces github.com/cosmos/interchain-security/v7 with /repo)",
        "baseline_off_cmd": baseline,
        "source_commits": HOOK_COMMITS,
        "add_only": True,
    },
    "engines": [{
        "name": "harness", "path": "/verif/harness", "serves_properties": sorted(CHECKS.keys()),
        "kind_free_text": "Go property-based testing harness (pgregory.net/rapid v1.3.0, state-machine mode for histories; bounded-exhaustive enumeration for the pure C04 predicate): own block driver over the real provider/consumer apps, generated action histories, per-property oracles, sharded over 16 processes by /verif/bin/check",
    }],
    "checks": [],
    "notes": "see /verif/DESIGN.md; known findings in /verif/known_findings.json",
    "not_applicable": [],
}
for p in props:
    pid = p["id"]
    if pid in CHECKS:
        c = CHECKS[pid]
        m["checks"].append({
            "property_id": pid,
            "quick_cmd": f"/verif/bin/check {pid} quick",
            "thorough_cmd": f"/verif/bin/check {pid} thorough",
            "evidence_file": f"/verif/evidence/{pid}.json",
            "replay_cmd_template": f"/verif/bin/check {pid} --replay {{path}}",
            "engine": "harness",
            "level_claimed": {"category": c.get("level", "exploration"), "text": c["text"], "design_ref": f"DESIGN.md section 5, {pid}"},
            "level_note": c["note"],
            "technique": c["technique"],
        })
    else:
        m["not_applicable"].append({"property_id": pid, "reason": NOT_APPLICABLE.get(pid, "check not built yet (work in progress; DESIGN.md section 5 describes the planned generated-input check)")})
json.dump(m, open(os.path.join(VERIF, "MANIFEST.json"), "w"), indent=1)
print("claimed:", sorted(CHECKS.keys()))
