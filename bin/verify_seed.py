#!/usr/bin/env python3
"""Independent confirmation of a seeded change in a scratch clone of /repo (outside /repo and /verif):
  1. the change applies and the tree builds, 2. the repository's baseline suite (guard off) still passes with it,
  3. the demonstration fails with the change and passes without it.
usage: verify_seed.py <id> <patch.diff> <demo_test.go> <dest path in repo> <package> <test regex>   -> prints a JSON summary"""
import json, os, shutil, subprocess, sys
sid, patch, demo, dest, pkg, rx = sys.argv[1:7]
base = json.load(open("/root/.vp/BASELINE.json"))
clone = f"/var/tmp/seedval-{sid}"
shutil.rmtree(clone, ignore_errors=True)
subprocess.run(["git", "clone", "-q", "/repo", clone], check=True)
env = dict(os.environ, GOFLAGS="-mod=mod", GOPROXY="off")
res = {"id": sid}
# VERIFY_ONLY_PKG=./tests/integration/ restricts the baseline comparison to one package (used to repeat a package
# whose run was disturbed, e.g. killed by a foreign process or timed out under load)
only = os.environ.get("VERIFY_ONLY_PKG", "")
res["baseline_scope"] = only or "./..."
def sh(cmd, **kw):
    return subprocess.run(cmd, shell=True, cwd=clone, env=env, stdout=subprocess.PIPE, stderr=subprocess.STDOUT, text=True, **kw)
r = sh(f"git apply {patch}")
res["patch_applies"] = r.returncode == 0
r = sh("go build ./...")
res["builds"] = r.returncode == 0
# baseline suite with the change (main module only: the second module is in always_fail)
raw = f"/var/tmp/seedval-{sid}.raw"
with open(raw, "w") as f:
    subprocess.run(f"go test -mod=mod -json -vet=off -count=1 -timeout 90m {only or './...'}", shell=True, cwd=clone, env=env, stdout=f, stderr=subprocess.STDOUT)
got = {}
for line in open(raw, errors="replace"):
    if line.startswith("{"):
        try:
            e = json.loads(line)
        except Exception:
            continue
        if e.get("Action") in ("pass", "fail", "skip") and e.get("Test"):
            got[f"{e['Package']}::{e['Test']}"] = e["Action"]
scope = "github.com/cosmos/interchain-security/v7/" + only.strip("./") + "::" if only else ""
missing = [t for t in base["stable_pass"] if t.startswith(scope) and got.get(t) != "pass"]
res["baseline_tests_compared"] = len([t for t in base["stable_pass"] if t.startswith(scope)])
res["baseline_not_passing_with_change"] = missing[:10]
res["baseline_passes_with_change"] = not missing
shutil.copy(demo, os.path.join(clone, dest))
r = sh(f"go test -count=1 {pkg} -run '{rx}'")
res["demo_fails_with_change"] = r.returncode != 0
res["demo_with_change_tail"] = r.stdout[-600:]
sh(f"git apply -R {patch}")
r = sh(f"go test -count=1 {pkg} -run '{rx}'")
res["demo_passes_without_change"] = r.returncode == 0
res["demo_without_change_tail"] = r.stdout[-300:]
os.remove(raw)
shutil.rmtree(clone, ignore_errors=True)
print(json.dumps(res, indent=1))
