# Per-property run parameters for bin/check. cases are totals over all shards.
COMMON_ASSUMPTIONS = [
    "the harness block driver reproduces CometBFT's contract (one FinalizeBlock+Commit per height, validator updates effective at H+2, last-commit votes restricted to validators known to staking)",
    "governance actions go through the real x/gov proposal path; all other txs are signed and pass through baseapp and the ante handler",
    "one validator (v0) is never unbonded, jailed or made to equivocate by the generators (CometBFT cannot run with an empty validator set)",
    "exploration only: absence of a violation in the explored histories is not a proof",
]

CHECKS = {
    "C02": {
        "test": "TestC02",
        "level": "exploration",
        "text": "Generated histories (consumers with all power-shaping combinations, opt-ins/outs, key assignments, staking changes, jailing, governance changes of the active-set size) on the real provider app; at every epoch and at every launch the stored consumer validator set is compared with an expectation computed from x/staking state, the provider's own recorded consensus set and the stored parameters. Exploration only.",
        "note": "Trusted: harness block driver, x/staking/x/slashing as source of truth, exported provider getters for parameters/opt-ins/keys.",
        "technique": "stateful property-based testing (rapid) with a reference eligibility predicate evaluated on real staking state after every epoch and launch",
        "rule": "histories of create/update/remove-consumer, opt-in/out, key assignment, commission, staking txs, downtime, gov changes of M; non-trivial = at some epoch or launch a stored consumer set was a strict non-empty subset of the bonded validators and at least one exclusion reason (not opted in, allowlist, denylist, min stake, inactive) applied to a bonded validator; distinct = distinct (config, trace) hash",
        "quick": {"cases": 800, "steps": 60, "floors": {"_nontrivial": 150}},
        "thorough": {"cases": 16000, "steps": 90, "floors": {"_nontrivial": 1000}},
        "assumptions": COMMON_ASSUMPTIONS,
    },
    "C03": {
        "test": "TestC03",
        "level": "exploration",
        "text": "Two generated searches: (a) ComputeMinPowerInTopN on generated power vectors against an integer brute force of the threshold definition, (b) histories with governance-owned Top-N consumers on the real provider app where after every epoch the stored threshold, the automatic opt-ins and the membership are compared with a brute force over the provider's active set, and every opt-out attempt is checked against the threshold in force. Exploration only.",
        "note": "Trusted: harness block driver; x/staking last powers; the in-memory keeper with a staking stub for the function-level part; total power <= 1e15 so the code's 18-digit decimal comparison is exact.",
        "technique": "property-based testing: differential against a brute-force reference (function level) and stateful rapid histories with a reference threshold/opt-out model",
        "rule": "function level: power vectors of 1-60 validators from 7 shape classes, N in [1,100] biased to [50,100]; non-trivial = at least two distinct power values. history level: non-trivial = some Top-N consumer had two different thresholds at different epochs and an opt-out was attempted on it; distinct = distinct input / trace hash",
        "quick": {"parts": [
            {"test": "TestC03MinPower", "cases": 200000, "floors": {"_nontrivial": 50000, "threshold-middle": 5000, "threshold-all": 2000}},
            {"test": "TestC03", "cases": 640, "steps": 60, "floors": {"_nontrivial": 30, "optout-above": 40, "optout-below": 40}},
        ]},
        "thorough": {"parts": [
            {"test": "TestC03MinPower", "cases": 3000000},
            {"test": "TestC03", "cases": 12000, "steps": 100, "floors": {"_nontrivial": 500}},
        ]},
        "assumptions": COMMON_ASSUMPTIONS,
    },
    "C04": {
        "test": "TestC04",
        "level": "exploration",
        "text": "Three generated searches: NoMoreThanPercentOfTheSum against the exact-arithmetic statement of the power-cap clause (plus a bounded-exhaustive pass over all vectors with n<=4, powers<=5, all percentages); PartitionBasedOnPriorityList+CapValidatorSet against size and rank-optimality; and histories on the real provider app where every stored consumer set is checked for cap size, rank-optimality among the eligible validators and the power-cap predicate applied to provider powers. Exploration only (the small pass is exhaustive for its bound).",
        "note": "Trusted: harness block driver; the eligibility predicate shared with C02; in-memory keeper for the priority list part.",
        "technique": "property-based testing with exact-arithmetic validity predicates (function level, incl. bounded exhaustive enumeration) and stateful rapid histories checking the stored sets",
        "rule": "function level: power vectors of 1-80 validators (7 shape classes, totals up to 2^60), percent 1..100, caps 0..n+2, random priority lists; non-trivial = the cap binds (some power above the cap with a feasible cap, or infeasible cap) / the set cap cuts somebody. history level: non-trivial = a stored set was cut by a validator-set cap or shaped by a binding/infeasible power cap; distinct = distinct input / trace hash",
        "quick": {"parts": [
            {"test": "TestC04PowerCap", "cases": 200000, "floors": {"cap-feasible-binding": 20000, "cap-infeasible": 20000}},
            {"test": "TestC04SetCap", "cases": 100000, "floors": {"setcap-cut": 20000}},
            {"test": "TestC04", "cases": 640, "steps": 60, "floors": {"_nontrivial": 60}},
        ]},
        "thorough": {"parts": [
            {"test": "TestC04PowerCap", "cases": 3000000},
            {"test": "TestC04SetCap", "cases": 1000000},
            {"test": "TestC04", "cases": 12000, "steps": 100, "floors": {"_nontrivial": 1000}},
        ]},
        "assumptions": COMMON_ASSUMPTIONS,
    },
    "C10": {
        "test": "TestC10",
        "level": "exploration",
        "text": "Generated create/update/remove histories (all spawn-time classes, equal spawn times, chain-id and owner changes, opt-ins, failing launches, rescheduling, stops and deletions; a dedicated generator creates 201+ consumers due in one block) on the real provider app. After every block a reference phase machine, the raw spawn queue, the launch schedule of that block (first 200 due, remainder kept) and the artefacts of successful and failed launches are checked. Exploration only.",
        "note": "Trusted: harness block driver; raw-store decoding by the independent key-layout table (cross-checked against the code's prefix list at start-up). Whether a due launch must succeed is only decided in clear-cut cases; in between only consistency is checked.",
        "technique": "stateful property-based testing (rapid) against a reference phase machine and a launch-schedule model read from the raw time queue",
        "rule": "histories of create/update/remove/opt-in/key/staking txs and block-time steps; non-trivial = the case contains at least one successful and one failed launch (bulk part: more than 200 consumers due in one block); distinct = distinct (config, trace) hash",
        "quick": {"parts": [
            {"test": "TestC10", "cases": 640, "steps": 70, "floors": {"_nontrivial": 80, "reschedule": 20}},
            {"test": "TestC10Bulk", "cases": 16, "steps": 25, "floors": {">200-due": 8}},
        ]},
        "thorough": {"parts": [
            {"test": "TestC10", "cases": 12000, "steps": 110, "floors": {"_nontrivial": 1000}},
            {"test": "TestC10Bulk", "cases": 160, "steps": 30, "floors": {">200-due": 80}},
        ]},
        "assumptions": COMMON_ASSUMPTIONS,
    },
    "C14": {
        "test": "TestC14",
        "level": "exploration",
        "text": "Generated matrix sampling of message type x sender class (owner, previous owner, stranger, governance authority via real proposals, validator operator, other validator) x consumer phase on the real provider app, every tx signed by the chosen sender and routed through baseapp. Reference authorisation rules decide which messages may be accepted; ownership, Top-N/owner coupling, provider parameters, global reward denoms and per-validator records are compared before/after every block and every change must be explained by an accepted message of an entitled sender. Exploration only.",
        "note": "Trusted: harness block driver and tx signing; x/gov executes authority messages. The 'rejected messages leave the state unchanged' clause is enforced by baseapp's cache-wrapping of message execution and is exercised, not separately diffed.",
        "technique": "stateful property-based testing (rapid) with a reference authorisation model and before/after attribution of every ownership, parameter and per-validator record change",
        "rule": "histories sampling message type x sender class x phase; non-trivial = the case has an accepted owner message and a rejected message of a non-entitled sender; distinct = distinct (config, trace) hash",
        "quick": {"cases": 640, "steps": 70, "floors": {"_nontrivial": 150, "sender:stranger/rejected": 100, "sender:other-validator/rejected": 100, "sender:gov/accepted": 50, "sender:non-authority/rejected": 100}},
        "thorough": {"cases": 12000, "steps": 110, "floors": {"_nontrivial": 3000}},
        "assumptions": COMMON_ASSUMPTIONS,
    },
    "C15": {
        "test": "TestC15",
        "level": "exploration",
        "text": "Generated staking/slashing/governance histories on the real provider application; after every block the engine-side validator set, the recorded set, x/staking state and the staking views exposed to gov/mint are compared. Exploration: thousands of histories per run, no exhaustiveness.",
        "note": "Trusted: the harness block driver (CometBFT contract emulation), x/staking and x/slashing as the source of truth for bonded status and power.",
        "technique": "stateful property-based testing (rapid state machine) against an invariant oracle computed from x/staking state and the engine-side accumulated validator set",
        "rule": "histories of staking txs (delegate/undelegate/redelegate/create-validator/unjail), downtime and double-sign evidence, governance changes of MaxProviderConsensusValidators and staking MaxValidators on the real provider app; non-trivial = some bonded validator entered and some bonded validator left the provider consensus set by crossing the top-M boundary; distinct = distinct (config, action trace) hash",
        "quick": {"cases": 800, "steps": 40, "floors": {"_nontrivial": 100, "cross-M-up": 100, "cross-M-down": 100}},
        "thorough": {"cases": 24000, "steps": 70, "floors": {"_nontrivial": 2000}},
        "assumptions": COMMON_ASSUMPTIONS,
    },
}

NOT_APPLICABLE = {}
HOOK_COMMITS = []
