# Per-property run parameters for bin/check. cases are totals over all shards.
COMMON_ASSUMPTIONS = [
    "the harness block driver reproduces CometBFT's contract (one FinalizeBlock+Commit per height, validator updates effective at H+2, last-commit votes restricted to validators known to staking)",
    "governance actions go through the real x/gov proposal path; all other txs are signed and pass through baseapp and the ante handler",
    "one validator (v0) is never unbonded, jailed or made to equivocate by the generators (CometBFT cannot run with an empty validator set)",
    "exploration only: absence of a violation in the explored histories is not a proof",
]

CHECKS = {
    "C15": {
        "test": "TestC15",
        "level": "exploration",
        "rule": "histories of staking txs (delegate/undelegate/redelegate/create-validator/unjail), downtime and double-sign evidence, governance changes of MaxProviderConsensusValidators and staking MaxValidators on the real provider app; non-trivial = some bonded validator entered and some bonded validator left the provider consensus set by crossing the top-M boundary; distinct = distinct (config, action trace) hash",
        "quick": {"cases": 800, "steps": 40, "floors": {"_nontrivial": 100, "cross-M-up": 100, "cross-M-down": 100}},
        "thorough": {"cases": 24000, "steps": 70, "floors": {"_nontrivial": 2000}},
        "assumptions": COMMON_ASSUMPTIONS,
    },
}
