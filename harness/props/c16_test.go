package props

import (
	"testing"

	"pgregory.net/rapid"

	"verif/harness/oracle"
	"verif/harness/world"
)

// rewardStep: the F-world generator with fee-paying consumer txs, transfer relays, and allow-listing of the
// consumers' voucher denoms (by the owner or globally by governance).
func rewardStep() func(t *rapid.T, w *world.World) world.Action {
	base := fStep(FProfile{MaxConsumers: 2, TwoConsumerPrelude: 60, Weights: map[string]int{"fee": 14, "cblock": 16, "relay": 18, "staking": 5, "vmsg": 5, "pblock": 12}})
	return func(t *rapid.T, w *world.World) world.Action {
		f := w.F()
		if len(w.Agenda) == 0 && len(f.Order) > 0 && rapid.IntRange(0, 99).Draw(t, "allow?") < 10 {
			id := rapid.SampledFrom(f.Order).Draw(t, "allowchain")
			// mostly the consumer's own voucher denom, sometimes the one of another consumer
			src := id
			if len(f.Order) > 1 && rapid.IntRange(0, 1).Draw(t, "foreign-denom") == 0 {
				src = rapid.SampledFrom(f.Order).Draw(t, "denomchain")
			}
			if denom := w.ProviderVoucherDenom(src, "stake"); denom != "" {
				if rapid.IntRange(0, 7).Draw(t, "global") == 0 && !w.Busy(world.GovProposer) {
					return world.Action{Kind: world.KGovRewardDenoms, Sender: "gov", Denoms: []string{denom}}
				}
				owner := w.OwnerName(w.ObserveConsumer(id).Owner)
				if owner != "" && owner != "gov" && !w.Busy(owner) {
					return world.Action{Kind: world.KUpdateConsumer, Sender: owner, Consumer: id, Spec: &world.ConsumerSpec{HasRewardDenoms: true, RewardDenoms: []string{denom}}}
				}
			}
		}
		// per-consumer commission rates that differ from the validators' own rate
		if len(w.Agenda) == 0 && len(w.ConsumerIDs()) > 0 && rapid.IntRange(0, 99).Draw(t, "commission?") < 6 {
			v := rapid.SampledFrom(w.ValOrder).Draw(t, "cval")
			if !w.Busy(v) {
				return world.Action{Kind: world.KSetCommission, Sender: v, Val: v, Consumer: rapid.SampledFrom(w.ConsumerIDs()).Draw(t, "ccons"),
					Rate: rapid.SampledFrom([]string{"0.0", "0.05", "0.25", "0.5", "1.0", "0.333333333333333333"}).Draw(t, "crate")}
			}
		}
		return base(t, w)
	}
}

var defC16 = register(&PropDef{
	ID:      "C16",
	Config:  fConfig(6),
	Init:    fInit,
	Step:    rewardStep(),
	Monitor: func(w *world.World) oracle.Monitor { return oracle.NewC16(w) },
	Finish:  finishF,
})

func TestC16(t *testing.T) { runProp(t, defC16) }
