package props

import (
	"time"

	"pgregory.net/rapid"

	"verif/harness/sim"
	"verif/harness/world"
)

var ccvOpts = world.ConsumerGenOpts{ChainIDs: []string{"consa-1", "cons-c"}, MaxConsumers: 2, AllowTopN: false, KeyPool: 5, StrangerProb: 2}

// FProfile tunes the F-world generator.
type FProfile struct {
	MaxConsumers int
	Weights      map[string]int
	AbsentC      int // percent of consumer blocks with an absent validator
	AbsentP      int
	Raw          bool // malicious raw packets
	Fees         bool
	Remove       bool
	NoPrelude    bool
	TwoConsumerPrelude int // percent of cases that start with two consumers set up side by side
}

func fConfig(maxVals int) func(t *rapid.T) world.Config {
	return func(t *rapid.T) world.Config {
		cfg := world.GenConfig(t, world.CfgOpts{MinVals: 3, MaxVals: maxVals, SmallM: false, Spare: 1})
		cfg.Provider.UnbondingTime = time.Duration(rapid.SampledFrom([]int{300, 1000, 3000}).Draw(t, "ubf")) * time.Second
		return cfg
	}
}

func fInit(w *world.World) { w.EnableConsumers(sim.DefaultConsumerConfig()) }

// genRelay draws a relayer operation for an instantiated consumer, weighted by what is pending on its path.
func genRelay(t *rapid.T, w *world.World, id string) world.Action {
	p := w.F().Paths[id]
	var p2cPending, p2cAckPending, c2pPending, c2pAckPending int
	for _, r := range p.P2C {
		if !r.Delivered && !r.TimedOut {
			p2cPending++
		} else if r.Ack != nil && !r.Acked {
			p2cAckPending++
		}
	}
	for _, r := range p.C2P {
		if !r.Delivered && !r.TimedOut {
			c2pPending++
		} else if r.Ack != nil && !r.Acked {
			c2pAckPending++
		}
	}
	wts := map[string]int{"handshake": 2, "recv-p2c": 1 + 6*min(p2cPending, 3), "ack-p2c": 1 + 3*min(p2cAckPending, 3), "recv-c2p": 1 + 6*min(c2pPending, 3), "ack-c2p": 1 + 4*min(c2pAckPending, 3), "update": 1}
	if _, ok := w.P.PApp.ProviderKeeper.GetConsumerIdToChannelId(w.P.Ctx(), id); !ok {
		wts["handshake"] = 8
	} else if w.ProviderVoucherDenom(id, "stake") == "" {
		wts["handshake"] = 6 // the transfer channel is still being opened
	}
	op := world.Weighted(t, "relayop", wts)
	rs := &world.RelaySpec{}
	switch op {
	case "handshake":
		rs.Op = "handshake"
	case "recv-p2c":
		rs.Op, rs.Dir, rs.K = "recv", "p2c", rapid.IntRange(1, 4).Draw(t, "k")
	case "ack-p2c":
		rs.Op, rs.Dir, rs.K = "ack", "p2c", rapid.IntRange(1, 4).Draw(t, "k")
	case "recv-c2p":
		rs.Op, rs.Dir, rs.K = "recv", "c2p", rapid.IntRange(1, 3).Draw(t, "k")
	case "ack-c2p":
		rs.Op, rs.Dir, rs.K = "ack", "c2p", rapid.IntRange(1, 3).Draw(t, "k")
	case "update":
		rs.Op, rs.Dir = "update_client", rapid.SampledFrom([]string{"p2c", "c2p"}).Draw(t, "dir")
	}
	return world.Action{Kind: world.KRelay, Consumer: id, Relay: rs}
}

// prelude schedules the opening scenario of an F-world case: n consumers are created, some validators opt in,
// they launch, and (mostly) their channels are opened right away and a first packet is delivered; the rest of
// the history is drawn freely.
func prelude(t *rapid.T, w *world.World, n int) {
	owners := []string{"alice", "bob", "carol"}
	for c := 0; c < n; c++ {
		spawn := w.Now.UnixNano() + int64(rapid.IntRange(8, 14).Draw(t, "pspawn"))*int64(time.Second)
		chain := rapid.SampledFrom(ccvOpts.ChainIDs).Draw(t, "pchain")
		spec := &world.ConsumerSpec{ChainID: chain, Metadata: "p", Init: &world.InitSpec{SpawnTime: spawn, RevNumber: world.RevOf(chain), RevHeight: uint64(rapid.SampledFrom([]int{1, 1, 7}).Draw(t, "prevh")), UnbondingSec: int64(rapid.SampledFrom([]int{1000, 5000}).Draw(t, "pcub")),
			BlocksPerDistr: int64(rapid.SampledFrom([]int{1, 3, 5}).Draw(t, "pbpd")), Fraction: rapid.SampledFrom([]string{"0.75", "0.5", "0.0", "1.0", "0.333333333333333333"}).Draw(t, "pfrac")}}
		if rapid.IntRange(0, 3).Draw(t, "pshaping") == 0 {
			spec.Shaping = w.GenShaping(t, false)
			spec.Shaping.Allow, spec.Shaping.Deny, spec.Shaping.MinStake = nil, nil, 0
		}
		if rapid.Bool().Draw(t, "pinfra") {
			spec.Infraction = genInfraction(t) // the consumer's own slashing/jailing parameters differ from the provider's
		}
		w.Agenda = append(w.Agenda, world.Action{Kind: world.KCreateConsumer, Sender: owners[c%len(owners)], Spec: spec})
	}
	w.Agenda = append(w.Agenda, world.Action{Kind: world.KBlock, Dt: 2e9})
	nOpt := rapid.IntRange(2, len(w.ValOrder)).Draw(t, "pnopt")
	for i := 0; i < nOpt; i++ {
		v := w.ValOrder[i]
		var sub []world.Action
		for c := 0; c < n; c++ {
			a := world.Action{Kind: world.KOptIn, Val: v, Consumer: string(rune('0' + c))}
			if rapid.IntRange(0, 3).Draw(t, "pkey") == 0 {
				a.Key = "k" + string(rune('0'+(i+c)%ccvOpts.KeyPool))
			}
			sub = append(sub, a)
		}
		if n == 1 {
			sub[0].Sender = v
			w.Agenda = append(w.Agenda, sub[0])
		} else {
			w.Agenda = append(w.Agenda, world.Action{Kind: world.KMulti, Sender: v, Sub: sub})
		}
	}
	for i := 0; i < 4; i++ {
		w.Agenda = append(w.Agenda, world.Action{Kind: world.KBlock, Dt: 4e9})
	}
	if rapid.IntRange(0, 9).Draw(t, "popen") < 7 {
		for i := 0; i < 22; i++ {
			for c := 0; c < n; c++ {
				w.Agenda = append(w.Agenda, world.Action{Kind: world.KRelay, Consumer: string(rune('0' + c)), Relay: &world.RelaySpec{Op: "handshake"}})
			}
			w.Agenda = append(w.Agenda, world.Action{Kind: world.KBlock, Dt: 2e9})
			for c := 0; c < n; c++ {
				w.Agenda = append(w.Agenda, world.Action{Kind: world.KBlock, Chain: string(rune('0' + c)), Dt: 1e9})
			}
		}
		if rapid.IntRange(0, 9).Draw(t, "pestablish") < 8 {
			// a first validator-set change and its delivery: the consumers adopt their CCV channels
			w.Agenda = append(w.Agenda, world.Action{Kind: world.KDelegate, Sender: "bob", Val: w.ValOrder[1], Amount: int64(rapid.IntRange(1, 6).Draw(t, "pdel")) * 1_000_000})
			for i := 0; i < 6; i++ {
				w.Agenda = append(w.Agenda, world.Action{Kind: world.KBlock, Dt: 2e9})
			}
			for c := 0; c < n; c++ {
				id := string(rune('0' + c))
				w.Agenda = append(w.Agenda,
					world.Action{Kind: world.KRelay, Consumer: id, Relay: &world.RelaySpec{Op: "recv", Dir: "p2c", K: 3}},
					world.Action{Kind: world.KBlock, Chain: id, Dt: 2e9},
					world.Action{Kind: world.KBlock, Chain: id, Dt: 2e9})
			}
		}
	}
}

// consumerKeyNames returns the key names validating consumer id right now (engine-side set), except the safe one.
func consumerKeyNames(w *world.World, id string) []string {
	c := w.Consumer(id)
	if c == nil {
		return nil
	}
	var out []string
	for _, v := range c.Vals.Validators {
		// the safe validator is never made to miss blocks (soundness precondition, see world.SafeVal)
		if n := w.Keys.NameByAddr(v.Address.String()); n != "" && !resolvesToSafe(w, id, n) {
			out = append(out, n)
		}
	}
	return out
}

// fStep is the shared F-world generator.
func fStep(prof FProfile) func(t *rapid.T, w *world.World) world.Action {
	return func(t *rapid.T, w *world.World) world.Action {
		f := w.F()
		if len(w.Trace) <= 1 && len(w.Agenda) == 0 && !prof.NoPrelude {
			n := 1
			if prof.TwoConsumerPrelude > 0 && rapid.IntRange(0, 99).Draw(t, "prelude2") < prof.TwoConsumerPrelude {
				n = 2
			}
			prelude(t, w, n)
		}
		if len(w.Agenda) > 0 {
			a := w.Agenda[0]
			w.Agenda = w.Agenda[1:]
			return a
		}
		weights := map[string]int{"pblock": 10, "cblock": 10, "staking": 6, "vmsg": 4, "create": 2, "push": 0, "relay": 14, "shaping": 1, "open": 0}
		// consumers whose CCV channel is not open yet: a macro runs a few handshake steps with blocks in between
		var unopened []string
		for _, id := range f.Order {
			if _, ok := w.P.PApp.ProviderKeeper.GetConsumerIdToChannelId(w.P.Ctx(), id); !ok && w.P.PApp.ProviderKeeper.GetConsumerPhase(w.P.Ctx(), id) == world.PhLaunched {
				unopened = append(unopened, id)
			}
		}
		if len(unopened) > 0 {
			weights["open"] = 10
		}
		for k, v := range prof.Weights {
			weights[k] = v
		}
		ncons := len(w.ConsumerIDs())
		if ncons == 0 {
			weights["create"] = 40
		}
		if ncons >= prof.MaxConsumers {
			weights["create"] = 0
		}
		if len(w.ConsumersInPhase(world.PhReg, world.PhInit)) > 0 {
			weights["push"] = 12
		}
		if len(f.Order) == 0 {
			weights["cblock"], weights["relay"] = 0, 0
		}
		switch world.Weighted(t, "kind", weights) {
		case "open":
			id := rapid.SampledFrom(unopened).Draw(t, "openchain")
			n := rapid.IntRange(1, 6).Draw(t, "opensteps")
			for i := 0; i < n; i++ {
				w.Agenda = append(w.Agenda,
					world.Action{Kind: world.KRelay, Consumer: id, Relay: &world.RelaySpec{Op: "handshake"}},
					world.Action{Kind: world.KBlock, Dt: int64(rapid.IntRange(1, 6).Draw(t, "odt")) * 1e9},
					world.Action{Kind: world.KBlock, Chain: id, Dt: int64(rapid.IntRange(1, 6).Draw(t, "odt")) * 1e9})
			}
			a := w.Agenda[0]
			w.Agenda = w.Agenda[1:]
			return a
		case "cblock":
			id := rapid.SampledFrom(f.Order).Draw(t, "cchain")
			a := world.Action{Kind: world.KBlock, Chain: id, Dt: int64(rapid.IntRange(1, 6).Draw(t, "cdt")) * 1e9}
			if prof.AbsentC > 0 && rapid.IntRange(0, 99).Draw(t, "cabsent?") < prof.AbsentC {
				names := consumerKeyNames(w, id)
				if len(names) > 1 {
					a.Absent = []string{rapid.SampledFrom(names).Draw(t, "cabsentkey")}
					// downtime needs consecutive misses: the same validator stays away for a few more blocks
					for i, n := 0, rapid.IntRange(1, 4).Draw(t, "cabsentrun"); i < n; i++ {
						w.Agenda = append(w.Agenda, world.Action{Kind: world.KBlock, Chain: id, Dt: int64(rapid.IntRange(1, 4).Draw(t, "cdt2")) * 1e9, Absent: a.Absent})
					}
				}
			}
			return a
		case "relay":
			id := rapid.SampledFrom(f.Order).Draw(t, "rchain")
			return genRelay(t, w, id)
		case "staking":
			if a, ok := w.GenStaking(t, w.ObserveVals()); ok {
				return a
			}
		case "vmsg":
			if a, ok := w.GenValidatorMsg(t, ccvOpts); ok {
				return a
			}
		case "create":
			if a, ok := w.GenCreateConsumer(t, ccvOpts); ok {
				if a.Spec.Init != nil {
					a.Spec.Init.ConnectionID = ""
				}
				return a
			}
		case "push":
			if a, ok := w.GenPushToLaunch(t, ccvOpts); ok {
				if a.Spec != nil && a.Spec.Init != nil {
					a.Spec.Init.ConnectionID = ""
				}
				return a
			}
		case "shaping":
			if a, ok := w.GenUpdateConsumer(t, ccvOpts); ok {
				if a.Spec != nil && a.Spec.Init != nil {
					a.Spec.Init.ConnectionID = ""
				}
				return a
			}
		case "remove":
			if a, ok := w.GenRemoveConsumer(t, ccvOpts); ok {
				return a
			}
		case "raw":
			if len(f.Order) > 0 {
				id := rapid.SampledFrom(f.Order).Draw(t, "rawchain")
				return genRawPacket(t, w, id)
			}
		case "fee":
			if len(f.Order) > 0 {
				id := rapid.SampledFrom(f.Order).Draw(t, "feechain")
				return world.Action{Kind: world.KConsumerTx, Chain: id, Sender: rapid.SampledFrom([]string{"cuser1", "cuser2"}).Draw(t, "cuser"), Amount: 1, Fee: rapid.SampledFrom([]string{"1stake", "1000003stake", "999999999999stake", "7stake"}).Draw(t, "fee")}
			}
		case "timeout":
			// macro: let undelivered provider packets time out (the receiver must pass the timeout time first), on
			// one or several consumers, once or repeatedly per consumer, optionally after letting packets pile up
			// and optionally followed by a step over the unbonding period (all stopped consumers due together)
			var sched []world.Action
			pile := prof.Remove && rapid.IntRange(0, 1).Draw(t, "pileup") == 0
			for _, id := range f.Order {
				p := f.Paths[id]
				pending := 0
				for _, pr := range p.P2C {
					if !pr.Delivered && !pr.TimedOut && pr.Packet.SourcePort == "provider" {
						pending++
					}
				}
				_, open := w.P.PApp.ProviderKeeper.GetConsumerIdToChannelId(w.P.Ctx(), id)
				if pile && open && w.P.PApp.ProviderKeeper.GetConsumerPhase(w.P.Ctx(), id) == world.PhLaunched {
					pending += 2
				}
				if pending > 0 && !p.C.Halted && rapid.IntRange(0, 3).Draw(t, "tomacro") > 0 {
					sched = append(sched,
						world.Action{Kind: world.KBlock, Chain: id, Dt: 1e9},
						world.Action{Kind: world.KBlock, Chain: id, Dt: 1e9},
						world.Action{Kind: world.KRelay, Consumer: id, Relay: &world.RelaySpec{Op: "timeout", Dir: "p2c", K: rapid.IntRange(1, 3).Draw(t, "tok")}},
						world.Action{Kind: world.KBlock, Dt: 2e9})
					if pending > 1 && rapid.IntRange(0, 3).Draw(t, "second-timeout") > 0 {
						sched = append(sched,
							world.Action{Kind: world.KRelay, Consumer: id, Relay: &world.RelaySpec{Op: "timeout", Dir: "p2c", K: 2}},
							world.Action{Kind: world.KBlock, Dt: int64(rapid.IntRange(1, 3).Draw(t, "stdt")) * 1e9})
					}
				}
			}
			if len(sched) > 0 {
				to := int64(w.Cfg.Provider.CcvTimeout) + 5e9
				if pile {
					// two epochs with a power change each: every launched consumer gets two more packets
					bpe := w.P.PApp.ProviderKeeper.GetBlocksPerEpoch(w.P.Ctx())
					for e := 0; e < 2; e++ {
						w.Agenda = append(w.Agenda, world.Action{Kind: world.KDelegate, Sender: "bob", Val: w.ValOrder[1+e%2], Amount: int64(rapid.IntRange(1, 4).Draw(t, "piledel")) * 1_000_000})
						for b := int64(0); b <= bpe; b++ {
							w.Agenda = append(w.Agenda, world.Action{Kind: world.KBlock, Dt: 1e9})
						}
					}
				}
				w.Agenda = append(w.Agenda, world.Action{Kind: world.KBlock, Dt: to})
				w.Agenda = append(w.Agenda, sched...)
				if prof.Remove && rapid.IntRange(0, 1).Draw(t, "then-unbond") == 0 {
					ub, _ := w.P.PApp.StakingKeeper.UnbondingTime(w.P.Ctx())
					w.Agenda = append(w.Agenda, world.Action{Kind: world.KBlock, Dt: int64(ub) + int64(rapid.IntRange(-3, 3).Draw(t, "uboff"))*1e9})
				}
				a := w.Agenda[0]
				w.Agenda = w.Agenda[1:]
				return a
			}
			if len(f.Order) > 0 {
				id := rapid.SampledFrom(f.Order).Draw(t, "tochain")
				return world.Action{Kind: world.KRelay, Consumer: id, Relay: &world.RelaySpec{Op: "timeout", Dir: rapid.SampledFrom([]string{"p2c", "p2c", "c2p"}).Draw(t, "todir"), K: rapid.IntRange(1, 3).Draw(t, "tok")}}
			}
		case "throttle":
			// macro: two different validators of one consumer go down one after the other, each report is relayed
			// and acknowledged, then the consumer runs past its retry delay and the exchange is relayed again - the
			// second report meets a slash meter that the first jailing may have driven negative (bounce, retry)
			var cands []string
			for _, id := range f.Order {
				if _, ok := w.P.PApp.ProviderKeeper.GetConsumerIdToChannelId(w.P.Ctx(), id); !ok || f.Paths[id].C.Halted {
					continue
				}
				if _, ok := f.Paths[id].C.CApp.ConsumerKeeper.GetProviderChannel(f.Paths[id].C.Ctx()); ok && len(consumerKeyNames(w, id)) >= 2 {
					cands = append(cands, id)
				}
			}
			if len(cands) > 0 {
				id := rapid.SampledFrom(cands).Draw(t, "thchain")
				names := consumerKeyNames(w, id)
				ai := rapid.IntRange(0, len(names)-1).Draw(t, "tha")
				bi := (ai + 1 + rapid.IntRange(0, len(names)-2).Draw(t, "thb")) % len(names)
				down := func(key string) {
					for i, n := 0, rapid.IntRange(3, 6).Draw(t, "thdown"); i < n; i++ {
						w.Agenda = append(w.Agenda, world.Action{Kind: world.KBlock, Chain: id, Dt: int64(rapid.IntRange(1, 3).Draw(t, "thdt")) * 1e9, Absent: []string{key}})
					}
				}
				deliver := func() {
					w.Agenda = append(w.Agenda,
						world.Action{Kind: world.KRelay, Consumer: id, Relay: &world.RelaySpec{Op: "recv", Dir: "c2p", K: 2}},
						world.Action{Kind: world.KBlock, Dt: 2e9},
						world.Action{Kind: world.KBlock, Dt: 1e9},
						world.Action{Kind: world.KRelay, Consumer: id, Relay: &world.RelaySpec{Op: "ack", Dir: "c2p", K: 2}},
						world.Action{Kind: world.KBlock, Chain: id, Dt: 1e9},
						world.Action{Kind: world.KBlock, Chain: id, Dt: 1e9})
				}
				down(names[ai])
				deliver()
				down(names[bi])
				deliver()
				retry := int64(f.CCfg.RetryDelay)
				if retry <= 0 {
					retry = int64(time.Hour)
				}
				for round := 0; round < rapid.IntRange(1, 2).Draw(t, "thretries"); round++ {
					w.Agenda = append(w.Agenda,
						world.Action{Kind: world.KBlock, Chain: id, Dt: retry + int64(rapid.IntRange(-1, 2).Draw(t, "throff"))*1e9},
						world.Action{Kind: world.KBlock, Chain: id, Dt: 1e9})
					deliver()
				}
				a := w.Agenda[0]
				w.Agenda = w.Agenda[1:]
				return a
			}
		case "errack":
			// a byzantine consumer answers the next validator-set packet with an error acknowledgement; an honest
			// relayer carries it to the provider (a power change and an epoch come first if nothing is in flight)
			for _, id := range f.Order {
				p := f.Paths[id]
				pending := false
				for _, pr := range p.P2C {
					if !pr.Delivered && !pr.TimedOut && pr.Packet.SourcePort == "provider" {
						pending = true
					}
				}
				_, open := w.P.PApp.ProviderKeeper.GetConsumerIdToChannelId(w.P.Ctx(), id)
				launched := w.P.PApp.ProviderKeeper.GetConsumerPhase(w.P.Ctx(), id) == world.PhLaunched
				if (pending || (open && launched)) && !p.C.Halted && rapid.IntRange(0, 1).Draw(t, "errackhere") == 0 {
					if !pending {
						bpe := w.P.PApp.ProviderKeeper.GetBlocksPerEpoch(w.P.Ctx())
						w.Agenda = append(w.Agenda, world.Action{Kind: world.KDelegate, Sender: "bob", Val: w.ValOrder[1], Amount: int64(rapid.IntRange(1, 4).Draw(t, "errdel")) * 1_000_000})
						for b := int64(0); b <= bpe; b++ {
							w.Agenda = append(w.Agenda, world.Action{Kind: world.KBlock, Dt: 1e9})
						}
					}
					w.Agenda = append(w.Agenda,
						world.Action{Kind: world.KRawAck, Chain: id},
						world.Action{Kind: world.KBlock, Chain: id, Dt: 1e9},
						world.Action{Kind: world.KBlock, Chain: id, Dt: 1e9},
						world.Action{Kind: world.KRelay, Consumer: id, Relay: &world.RelaySpec{Op: "ack", Dir: "p2c", K: 4}},
						world.Action{Kind: world.KBlock, Dt: 2e9})
					a := w.Agenda[0]
					w.Agenda = w.Agenda[1:]
					return a
				}
			}
		case "unjail":
			obs := w.ObserveVals()
			var jailed []string
			for _, n := range w.ValOrder {
				if obs[n].Jailed && !obs[n].Tombstoned && !w.Busy(n) {
					jailed = append(jailed, n)
				}
			}
			if len(jailed) > 0 {
				return world.Action{Kind: world.KUnjail, Val: rapid.SampledFrom(jailed).Draw(t, "ujv")}
			}
		case "bigdt":
			return world.Action{Kind: world.KBlock, Dt: int64(rapid.SampledFrom([]int{30, 70, 210, 400}).Draw(t, "bigdt")) * 1e9}
		}
		a := w.GenBlock(t, prof.AbsentP)
		if a.Dt > 20e9 && !prof.Remove {
			a.Dt = 5e9
		}
		return a
	}
}

func genRawPacket(t *rapid.T, w *world.World, id string) world.Action {
	var keys []string
	for _, v := range w.ValOrder {
		if v != world.SafeVal && w.Vals[v].ProvKey != "" {
			keys = append(keys, w.Vals[v].ProvKey)
		}
	}
	for i := 0; i < ccvOpts.KeyPool; i++ {
		keys = append(keys, "k"+string(rune('0'+i)))
	}
	keys = append(keys, "unknown-key")
	cur := w.P.PApp.ProviderKeeper.GetValidatorSetUpdateId(w.P.Ctx())
	vsc := uint64(rapid.IntRange(0, int(cur)+2).Draw(t, "rawvsc"))
	inf := world.Weighted(t, "rawinf", map[string]int{"downtime": 8, "double_sign": 2})
	var safeKeys []string
	for _, kn := range keys {
		if !resolvesToSafe(w, id, kn) {
			safeKeys = append(safeKeys, kn)
		}
	}
	keys = safeKeys
	return world.Action{Kind: world.KRawPacket, Chain: id, Pkt: &world.PacketSpec{AddrKey: rapid.SampledFrom(keys).Draw(t, "rawkey"), Power: int64(rapid.IntRange(0, 50).Draw(t, "rawpower")), VscID: vsc, Infraction: inf}}
}

// finishF produces closing blocks on every chain.
func finishF(w *world.World, apply func(world.Action)) {
	apply(world.Action{Kind: world.KBlock, Dt: 5e9})
	if f := w.F(); f != nil {
		for _, id := range f.Order {
			if c := w.Consumer(id); c != nil && !c.Halted {
				apply(world.Action{Kind: world.KBlock, Chain: id, Dt: 2e9})
			}
		}
	}
	apply(world.Action{Kind: world.KBlock, Dt: 5e9})
}
