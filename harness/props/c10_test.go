package props

import (
	"fmt"
	"testing"
	"time"

	"pgregory.net/rapid"

	"verif/harness/oracle"
	"verif/harness/world"
)

var lifecycleOpts = world.ConsumerGenOpts{ChainIDs: []string{"consa-1", "consb-2", "cons-c", "consa-1"}, MaxConsumers: 8, AllowTopN: true, KeyPool: 4, StrangerProb: 8, ConnectionIDs: []string{"connection-0", "connection-7"}}

// lifecycleStep: long create/update/remove sequences with all spawn-time classes, owner changes,
// failing launches, rescheduling, removal and deletion.
func lifecycleStep(t *rapid.T, w *world.World) world.Action {
	ncons := len(w.ConsumerIDs())
	weights := map[string]int{"block": 12, "staking": 3, "create": 6, "update": 8, "vmsg": 6, "remove": 3, "push": 0, "bulk": 0, "same-time": 2}
	if ncons == 0 {
		weights["create"] = 30
	}
	if ncons >= lifecycleOpts.MaxConsumers {
		weights["create"] = 1
	}
	if len(w.ConsumersInPhase(world.PhReg, world.PhInit)) > 0 {
		weights["push"] = 8
	}
	switch world.Weighted(t, "kind", weights) {
	case "staking":
		if a, ok := w.GenStaking(t, w.ObserveVals()); ok {
			return a
		}
	case "create":
		if a, ok := w.GenCreateConsumer(t, lifecycleOpts); ok {
			return a
		}
	case "same-time":
		// several consumers with exactly the same spawn time, created in one tx
		acc := w.FreeAccount(t, []string{"alice", "bob", "carol"})
		if acc != "" {
			spawn := w.P.Time.UnixNano() + int64(rapid.IntRange(1, 15).Draw(t, "sameoff"))*int64(time.Second)
			n := rapid.IntRange(2, 4).Draw(t, "samecount")
			var sub []world.Action
			for i := 0; i < n; i++ {
				sub = append(sub, world.Action{Kind: world.KCreateConsumer, Spec: &world.ConsumerSpec{ChainID: "cons-c", Metadata: fmt.Sprint(i), Init: &world.InitSpec{SpawnTime: spawn, RevHeight: 1, UnbondingSec: 100}}})
			}
			return world.Action{Kind: world.KMulti, Sender: acc, Sub: sub}
		}
	case "update":
		if a, ok := w.GenUpdateConsumer(t, lifecycleOpts); ok {
			return a
		}
	case "remove":
		if a, ok := w.GenRemoveConsumer(t, lifecycleOpts); ok {
			return a
		}
	case "vmsg":
		if a, ok := w.GenValidatorMsg(t, lifecycleOpts); ok {
			return a
		}
	case "push":
		if a, ok := w.GenPushToLaunch(t, lifecycleOpts); ok {
			return a
		}
	}
	return w.GenBlock(t, 10)
}

func lifecycleConfig(t *rapid.T) world.Config {
	return world.GenConfig(t, world.CfgOpts{MinVals: 3, MaxVals: 6, SmallM: true, Spare: 1})
}

var defC10 = register(&PropDef{
	ID:      "C10",
	Config:  lifecycleConfig,
	Step:    lifecycleStep,
	Monitor: func(w *world.World) oracle.Monitor { return oracle.NewC10(w) },
	Finish:  finishWithBlocks(3),
})

func TestC10(t *testing.T) { runProp(t, defC10) }

// TestC10Bulk: more than 200 consumers due in one block (some launching, some failing), checked by the
// same monitor. The scenario shape is fixed; counts, spawn times, who opts in and the block steps are drawn.
var defC10Bulk = register(&PropDef{
	ID:     "C10bulk",
	Config: func(t *rapid.T) world.Config { return world.GenConfig(t, world.CfgOpts{MinVals: 3, MaxVals: 4, SmallM: false, Spare: 0}) },
	Step: func(t *rapid.T, w *world.World) world.Action {
		ncons := len(w.ConsumerIDs())
		if ncons < 201 {
			acc := w.FreeAccount(t, []string{"alice", "bob", "carol"})
			if acc == "" {
				return world.Action{Kind: world.KBlock, Dt: int64(time.Second)}
			}
			n := rapid.IntRange(60, 80).Draw(t, "bulkn")
			base := time.Date(2025, 1, 1, 0, 10, 0, 0, time.UTC).UnixNano()
			var sub []world.Action
			for i := 0; i < n; i++ {
				// two distinct spawn times so that the 200-limit cuts inside a list
				spawn := base + int64(rapid.IntRange(0, 1).Draw(t, "slot"))*int64(time.Second)
				sub = append(sub, world.Action{Kind: world.KCreateConsumer, Spec: &world.ConsumerSpec{ChainID: "cons-c", Metadata: fmt.Sprint(i), Init: &world.InitSpec{SpawnTime: spawn, RevHeight: 1, UnbondingSec: 100}}})
			}
			return world.Action{Kind: world.KMulti, Sender: acc, Sub: sub}
		}
		if rapid.IntRange(0, 2).Draw(t, "optin?") > 0 {
			v := w.FreeAccount(t, w.ValOrder)
			if v != "" {
				var sub []world.Action
				for _, id := range w.ConsumersInPhase(world.PhInit) {
					if rapid.IntRange(0, 9).Draw(t, "skipopt") < 8 {
						sub = append(sub, world.Action{Kind: world.KOptIn, Val: v, Consumer: id})
					}
				}
				if len(sub) > 0 {
					return world.Action{Kind: world.KMulti, Sender: v, Sub: sub}
				}
			}
		}
		dt := int64(rapid.SampledFrom([]int{1, 5, 300, 700}).Draw(t, "bulkdt")) * int64(time.Second)
		return world.Action{Kind: world.KBlock, Dt: dt}
	},
	Monitor: func(w *world.World) oracle.Monitor { return oracle.NewC10(w) },
	Finish: func(w *world.World, apply func(world.Action)) {
		apply(world.Action{Kind: world.KBlock, Dt: 700e9})
		apply(world.Action{Kind: world.KBlock, Dt: 5e9})
		apply(world.Action{Kind: world.KBlock, Dt: 5e9})
	},
})

func TestC10Bulk(t *testing.T) { runProp(t, defC10Bulk) }
