package props

import (
	"encoding/json"
	"fmt"
	"os"
	"sort"
	"testing"

	"github.com/golang/mock/gomock"
	"pgregory.net/rapid"

	sdk "github.com/cosmos/cosmos-sdk/types"
	stakingtypes "github.com/cosmos/cosmos-sdk/x/staking/types"

	testkeeper "github.com/cosmos/interchain-security/v7/testutil/keeper"
	providerkeeper "github.com/cosmos/interchain-security/v7/x/ccv/provider/keeper"
	providertypes "github.com/cosmos/interchain-security/v7/x/ccv/provider/types"

	"verif/harness/oracle"
)

// pureStats mirrors the statistics file of the history runner for function-level properties.
type pureStats struct {
	Property   string          `json:"property"`
	Cases      int             `json:"cases"`
	NonTrivial int             `json:"nontrivial"`
	Distinct   int             `json:"distinct_nontrivial"`
	Checks     int             `json:"oracle_checks"`
	Labels     map[string]int  `json:"labels"`
	Samples    [][]string      `json:"samples"`
	HashList   []string        `json:"hashes"`
	hashes     map[string]bool
}

func newPureStats(id string) *pureStats {
	return &pureStats{Property: id, Labels: map[string]int{}, hashes: map[string]bool{}}
}

func (s *pureStats) record(nontrivial bool, key string, sample func() string, labels ...string) {
	s.Cases++
	s.Checks++
	for _, l := range labels {
		s.Labels[l]++
	}
	if nontrivial {
		s.NonTrivial++
		if !s.hashes[key] {
			if len(s.hashes) < 2_000_000 {
				s.hashes[key] = true
			}
			if len(s.Samples) < 4 {
				s.Samples = append(s.Samples, []string{sample()})
			}
		}
	}
}

func (s *pureStats) flush() {
	path := os.Getenv("VERIF_STATS")
	if path == "" {
		return
	}
	s.Distinct = len(s.hashes)
	for h := range s.hashes {
		s.HashList = append(s.HashList, h)
	}
	sort.Strings(s.HashList)
	b, _ := json.Marshal(s)
	_ = os.WriteFile(path, b, 0o644)
}

// PureFail is the replay format of function-level failures.
type PureFail struct {
	Property string  `json:"property"`
	Kind     string  `json:"kind"`
	Pure     string  `json:"pure"`
	Message  string  `json:"message"`
	Powers   []int64 `json:"powers,omitempty"`
	Percent  uint32  `json:"percent,omitempty"`
	Prio     []bool  `json:"prio,omitempty"`
	Cap      uint32  `json:"cap,omitempty"`
	TopN     uint32  `json:"top_n,omitempty"`
}

func writePureFail(f PureFail) {
	path := os.Getenv("VERIF_FAIL")
	if path == "" {
		return
	}
	f.Kind = "violation"
	b, _ := json.MarshalIndent(f, "", " ")
	_ = os.WriteFile(path, b, 0o644)
}

// genPowers draws a vector of voting powers from several shape classes.
func genPowers(t *rapid.T, maxN int, maxTotal int64) ([]int64, string) {
	n := rapid.IntRange(1, maxN).Draw(t, "n")
	class := rapid.SampledFrom([]string{"equal", "plateaus", "geometric", "whale", "random", "small", "extreme"}).Draw(t, "class")
	out := make([]int64, n)
	switch class {
	case "equal":
		p := int64(rapid.IntRange(1, 1000).Draw(t, "p"))
		for i := range out {
			out[i] = p
		}
	case "plateaus":
		a := int64(rapid.IntRange(1, 1000).Draw(t, "a"))
		b := int64(rapid.IntRange(1, 1000).Draw(t, "b"))
		cut := rapid.IntRange(0, n).Draw(t, "cut")
		for i := range out {
			if i < cut {
				out[i] = a
			} else {
				out[i] = b
			}
		}
	case "geometric":
		p := int64(rapid.IntRange(1, 1_000_000).Draw(t, "p0"))
		for i := range out {
			out[i] = p
			p = p/2 + 1
		}
	case "whale":
		for i := range out {
			out[i] = int64(rapid.IntRange(1, 100).Draw(t, "p"))
		}
		out[0] = int64(rapid.Int64Range(1000, 1_000_000_000).Draw(t, "whale"))
	case "random":
		for i := range out {
			out[i] = rapid.Int64Range(1, 1_000_000_000_000).Draw(t, "p")
		}
	case "small":
		for i := range out {
			out[i] = int64(rapid.IntRange(1, 6).Draw(t, "p"))
		}
	case "extreme":
		per := maxTotal / int64(n)
		for i := range out {
			out[i] = rapid.Int64Range(1, per).Draw(t, "p")
		}
	}
	// keep the total within the bound
	var total int64
	for i := range out {
		if total+out[i] > maxTotal {
			out[i] = 1
		}
		total += out[i]
	}
	return out, class
}

func checkPowerCap(powers []int64, percent uint32) (string, string) {
	vals := make([]providertypes.ConsensusValidator, len(powers))
	for i, p := range powers {
		vals[i] = providertypes.ConsensusValidator{ProviderConsAddr: []byte(fmt.Sprintf("addr%04d", i)), Power: p}
	}
	in := map[string]int64{}
	for _, v := range vals {
		in[string(v.ProviderConsAddr)] = v.Power
	}
	res := providerkeeper.NoMoreThanPercentOfTheSum(vals, percent)
	if len(res) != len(powers) {
		return fmt.Sprintf("%d validators in, %d out", len(powers), len(res)), "shape"
	}
	seen := map[string]bool{}
	var inv, outv []int64
	for _, v := range res {
		id := string(v.ProviderConsAddr)
		if _, ok := in[id]; !ok || seen[id] {
			return fmt.Sprintf("identity %q invented or duplicated", id), "shape"
		}
		seen[id] = true
		inv = append(inv, in[id])
		outv = append(outv, v.Power)
	}
	return oracle.PowerCapPredicate(inv, outv, percent)
}

// TestC04PowerCap: NoMoreThanPercentOfTheSum against the exact-arithmetic statement of the property.
func TestC04PowerCap(t *testing.T) {
	st := newPureStats("C04")
	defer st.flush()
	// bounded-exhaustive pass: all vectors with n<=4 and powers<=5, all percentages
	if os.Getenv("VERIF_SHARD0") == "1" {
		var rec func(cur []int64, n int)
		count := 0
		rec = func(cur []int64, n int) {
			if len(cur) == n {
				for p := uint32(1); p <= 100; p++ {
					if msg, class := checkPowerCap(cur, p); msg != "" {
						writePureFail(PureFail{Property: "C04", Pure: "powercap", Message: msg, Powers: cur, Percent: p})
						t.Fatalf("VIOLATION C04: power cap %d%% on %v: %s", p, cur, msg)
					} else if count%5000 == 0 {
						_ = class
					}
					count++
				}
				return
			}
			for p := int64(1); p <= 5; p++ {
				rec(append(append([]int64{}, cur...), p), n)
			}
		}
		for n := 1; n <= 4; n++ {
			rec(nil, n)
		}
		st.Labels["exhaustive-small-vectors"] = count
	}
	rapid.Check(t, func(rt *rapid.T) {
		powers, pclass := genPowers(rt, 80, 1<<60)
		percent := uint32(rapid.IntRange(1, 100).Draw(rt, "percent"))
		msg, class := checkPowerCap(powers, percent)
		if msg != "" {
			writePureFail(PureFail{Property: "C04", Pure: "powercap", Message: msg, Powers: powers, Percent: percent})
			rt.Fatalf("VIOLATION C04: power cap %d%% on %v: %s", percent, powers, msg)
		}
		nt := class == "feasible-binding" || class == "infeasible"
		st.record(nt, fmt.Sprint(powers, percent), func() string { return fmt.Sprintf("powers=%v percent=%d class=%s", powers, percent, class) }, "cap-"+class, "powers-"+pclass)
	})
}

// one in-memory keeper for the whole test; the staking mock answers from a map swapped per case
type pureEnv struct {
	k      providerkeeper.Keeper
	ctx    sdk.Context
	powers map[string]int64
}

type nopReporter struct{ t *testing.T }

func (r nopReporter) Errorf(format string, args ...interface{}) { r.t.Errorf(format, args...) }
func (r nopReporter) Fatalf(format string, args ...interface{}) { r.t.Fatalf(format, args...) }

func newPureEnv(t *testing.T) *pureEnv {
	params := testkeeper.NewInMemKeeperParams(t)
	ctrl := gomock.NewController(nopReporter{t})
	mocks := testkeeper.NewMockedKeepers(ctrl)
	env := &pureEnv{powers: map[string]int64{}}
	mocks.MockStakingKeeper.EXPECT().GetLastValidatorPower(gomock.Any(), gomock.Any()).DoAndReturn(
		func(_ interface{}, addr sdk.ValAddress) (int64, error) { return env.powers[addr.String()], nil }).AnyTimes()
	env.k = testkeeper.NewInMemProviderKeeper(params, mocks)
	env.ctx = params.Ctx
	return env
}

// TestC03MinPower: ComputeMinPowerInTopN against an integer brute force of the property statement.
func TestC03MinPower(t *testing.T) {
	st := newPureStats("C03")
	defer st.flush()
	env := newPureEnv(t)
	rapid.Check(t, func(rt *rapid.T) {
		powers, pclass := genPowers(rt, 60, 1_000_000_000_000_000)
		var n uint32
		if rapid.IntRange(0, 9).Draw(rt, "lowN") == 0 {
			n = uint32(rapid.IntRange(1, 49).Draw(rt, "N"))
		} else {
			n = uint32(rapid.IntRange(50, 100).Draw(rt, "N"))
		}
		env.powers = map[string]int64{}
		vals := make([]stakingtypes.Validator, len(powers))
		var total int64
		for i, p := range powers {
			op := sdk.ValAddress([]byte(fmt.Sprintf("validator-%010d", i)))
			vals[i] = stakingtypes.Validator{OperatorAddress: op.String()}
			env.powers[op.String()] = p
			total += p
		}
		got, err := env.k.ComputeMinPowerInTopN(env.ctx, vals, n)
		if err != nil {
			writePureFail(PureFail{Property: "C03", Pure: "minpower", Message: err.Error(), Powers: powers, TopN: n})
			rt.Fatalf("VIOLATION C03: ComputeMinPowerInTopN(%v, %d) failed: %v", powers, n, err)
		}
		// brute force: smallest power value m such that validators with power >= m hold >= N% of the total
		distinct := map[int64]bool{}
		for _, p := range powers {
			distinct[p] = true
		}
		var cands []int64
		for p := range distinct {
			cands = append(cands, p)
		}
		sort.Slice(cands, func(i, j int) bool { return cands[i] > cands[j] })
		want := int64(-1)
		// the smallest m for which the condition holds: the condition is monotone (lower m => more power),
		// so the property's m is the *largest* power value whose upper set reaches N% ... the statement says
		// "the smallest voting power m such that validators with power at least m together hold at least N
		// percent": among all m with sum{p>=m} >= N% we need the one that makes the set minimal, i.e. the
		// largest such m among existing power values.
		for _, m := range cands {
			var s int64
			for _, p := range powers {
				if p >= m {
					s += p
				}
			}
			// 100*s >= n*total, in 128-bit safe form: s, total <= 1e15, so products < 1e17*... fits int64? 1e15*100 = 1e17 < 9.2e18
			if s*100 >= int64(n)*total {
				want = m
				break
			}
		}
		if got != want {
			writePureFail(PureFail{Property: "C03", Pure: "minpower", Message: fmt.Sprintf("got %d want %d", got, want), Powers: powers, TopN: n})
			rt.Fatalf("VIOLATION C03: ComputeMinPowerInTopN(%v, N=%d) = %d, brute force = %d", powers, n, got, want)
		}
		class := "middle"
		if want == cands[0] {
			class = "top-only"
		} else if want == cands[len(cands)-1] {
			class = "all"
		}
		st.record(len(cands) > 1, fmt.Sprint(powers, n), func() string { return fmt.Sprintf("powers=%v N=%d m=%d class=%s", powers, n, want, class) }, "threshold-"+class, "powers-"+pclass)
	})
}

// TestC04SetCap: PartitionBasedOnPriorityList + CapValidatorSet: size and rank-optimality.
func TestC04SetCap(t *testing.T) {
	st := newPureStats("C04")
	defer st.flush()
	env := newPureEnv(t)
	rapid.Check(t, func(rt *rapid.T) {
		powers, pclass := genPowers(rt, 40, 1<<50)
		capk := uint32(rapid.IntRange(0, len(powers)+2).Draw(rt, "cap"))
		topN := uint32(0)
		if rapid.IntRange(0, 9).Draw(rt, "topn?") == 0 {
			topN = 67
		}
		prio := make([]bool, len(powers))
		prioProb := rapid.IntRange(0, 100).Draw(rt, "prioProb")
		vals := make([]providertypes.ConsensusValidator, len(powers))
		const cid = "7"
		env.k.DeletePrioritylist(env.ctx, cid)
		for i, p := range powers {
			addr := []byte(fmt.Sprintf("consaddr-%011d", i))
			vals[i] = providertypes.ConsensusValidator{ProviderConsAddr: addr, Power: p}
			if rapid.IntRange(0, 99).Draw(rt, "prio") < prioProb {
				prio[i] = true
				env.k.SetPrioritylist(env.ctx, cid, providertypes.NewProviderConsAddress(addr))
			}
		}
		// also a priority-listed address that is not a candidate
		env.k.SetPrioritylist(env.ctx, cid, providertypes.NewProviderConsAddress([]byte("consaddr-stranger-00")))
		pv, npv := env.k.PartitionBasedOnPriorityList(env.ctx, cid, vals)
		out := env.k.CapValidatorSet(env.ctx, providertypes.PowerShapingParameters{Top_N: topN, ValidatorSetCap: capk}, append(pv, npv...))
		fail := func(msg string) {
			writePureFail(PureFail{Property: "C04", Pure: "setcap", Message: msg, Powers: powers, Prio: prio, Cap: capk, TopN: topN})
			rt.Fatalf("VIOLATION C04: set cap %d (topN=%d) on powers %v prio %v: %s", capk, topN, powers, prio, msg)
		}
		wantSize := len(powers)
		if capk > 0 && topN == 0 && int(capk) < wantSize {
			wantSize = int(capk)
		}
		if len(out) != wantSize {
			fail(fmt.Sprintf("got %d validators, want %d", len(out), wantSize))
		}
		idx := map[string]int{}
		for i, v := range vals {
			idx[string(v.ProviderConsAddr)] = i
		}
		included := map[int]bool{}
		for _, v := range out {
			i, ok := idx[string(v.ProviderConsAddr)]
			if !ok || included[i] {
				fail("output contains an invented or duplicated validator")
			}
			if v.Power != powers[i] {
				fail("set cap changed a power")
			}
			included[i] = true
		}
		rank := func(i int) (int, int64) {
			if prio[i] {
				return 1, powers[i]
			}
			return 0, powers[i]
		}
		for e := range powers {
			if included[e] {
				continue
			}
			pe, we := rank(e)
			for i := range included {
				pi, wi := rank(i)
				if pe > pi || (pe == pi && we > wi) {
					fail(fmt.Sprintf("excluded validator %d (prio %v, power %d) outranks included %d (prio %v, power %d)", e, prio[e], powers[e], i, prio[i], powers[i]))
				}
			}
		}
		cut := wantSize < len(powers)
		lbl := "no-cut"
		if cut {
			lbl = "cut"
		}
		st.record(cut, fmt.Sprint(powers, prio, capk), func() string { return fmt.Sprintf("powers=%v prio=%v cap=%d topN=%d", powers, prio, capk, topN) }, "setcap-"+lbl, "powers-"+pclass)
	})
}

// replayPure re-checks a saved function-level failure.
func replayPure(t *testing.T, pf PureFail) {
	switch pf.Pure {
	case "powercap":
		if msg, _ := checkPowerCap(pf.Powers, pf.Percent); msg != "" {
			t.Fatalf("VIOLATION C04: power cap %d%% on %v: %s", pf.Percent, pf.Powers, msg)
		}
	default:
		t.Skipf("no replay for pure check %q: re-run the check with the same seed", pf.Pure)
	}
}
