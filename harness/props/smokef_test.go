package props

import (
	"fmt"
	"testing"
	"time"

	"verif/harness/sim"
	"verif/harness/world"
)

func TestSmokeF(t *testing.T) {
	cfg := world.Config{Provider: sim.DefaultProviderConfig(4), SpareAccs: 1}
	w := world.New(cfg)
	w.EnableConsumers(sim.DefaultConsumerConfig())
	do := func(a world.Action) *world.StepResult {
		r := w.Apply(a)
		if r.Skipped != "" {
			t.Logf("  SKIPPED %s: %s", a.String(), r.Skipped)
		}
		if r.Block != nil {
			if r.Block.Failed() {
				t.Fatalf("block failed on %q: %v %v", r.Chain, r.Block.Err, r.Block.Panic)
			}
			for _, tx := range r.Txs {
				name := "auto"
				if tx.Action != nil {
					name = tx.Action.Kind
					if tx.Action.Relay != nil {
						name += ":" + tx.Action.Relay.Op
					}
				}
				t.Logf("  [%s h=%d] tx %s code=%d %s", r.Chain, r.Block.Height, name, tx.Code, tx.Log)
			}
		}
		return r
	}
	pblock := func() { do(world.Action{Kind: world.KBlock, Dt: 5e9}) }
	cblock := func() { do(world.Action{Kind: world.KBlock, Chain: "0", Dt: 5e9}) }
	start := time.Now()
	pblock()
	spawn := w.Now.Add(12 * time.Second).UnixNano()
	do(world.Action{Kind: world.KCreateConsumer, Sender: "alice", Spec: &world.ConsumerSpec{ChainID: "consa-1", Metadata: "x", Init: &world.InitSpec{SpawnTime: spawn, RevNumber: 1, RevHeight: 1, UnbondingSec: 1000}}})
	pblock()
	for _, v := range []string{"v0", "v1", "v2", "v3"} {
		do(world.Action{Kind: world.KOptIn, Sender: v, Val: v, Consumer: "0"})
	}
	pblock()
	pblock()
	pblock()
	if w.Consumer("0") == nil {
		t.Fatalf("consumer not instantiated; phase=%s", w.ObserveConsumer("0").Phase)
	}
	cblock()
	cblock()
	// handshake: alternate steps and blocks
	for i := 0; i < 30; i++ {
		r := do(world.Action{Kind: world.KRelay, Consumer: "0", Relay: &world.RelaySpec{Op: "handshake"}})
		pblock()
		cblock()
		if r.Skipped != "" && i > 12 {
			break
		}
	}
	co := w.ObserveConsumer("0")
	t.Logf("provider: channel=%q client=%q", co.ChannelID, co.ClientID)
	do(world.Action{Kind: world.KDelegate, Sender: "alice", Val: "v1", Amount: 5_000_000})
	pblock()
	pblock()
	pblock()
	for i := 0; i < 4; i++ {
		do(world.Action{Kind: world.KRelay, Consumer: "0", Relay: &world.RelaySpec{Op: "recv", Dir: "p2c", K: 3}})
		cblock()
		do(world.Action{Kind: world.KRelay, Consumer: "0", Relay: &world.RelaySpec{Op: "ack", Dir: "p2c", K: 3}})
		pblock()
	}
	c := w.Consumer("0")
	vals := c.CApp.ConsumerKeeper.GetAllCCValidator(c.Ctx())
	for _, v := range vals {
		t.Logf("consumer validator %X power %d", v.Address, v.Power)
	}
	pch, _ := c.CApp.ConsumerKeeper.GetProviderChannel(c.Ctx())
	t.Logf("consumer provider channel=%q packets p2c=%d c2p=%d elapsed=%v", pch, len(w.F().Paths["0"].P2C), len(w.F().Paths["0"].C2P), time.Since(start))
	_ = fmt.Sprint()
}
