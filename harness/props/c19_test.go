package props

import (
	"testing"
	"time"

	"pgregory.net/rapid"

	"verif/harness/oracle"
	"verif/harness/world"
)

func genFault(t *rapid.T, scopes ...string) world.Action {
	var sites []string
	for _, s := range world.FaultSites {
		for _, sc := range scopes {
			if len(s) > len(sc) && s[:len(sc)+1] == sc+":" {
				sites = append(sites, s)
			}
		}
	}
	if len(sites) == 0 {
		return world.Action{Kind: world.KBlock, Dt: 1e9}
	}
	return world.Action{Kind: world.KInject, Fault: &world.FaultSpec{Site: rapid.SampledFrom(sites).Draw(t, "site"), Nth: rapid.IntRange(1, 4).Draw(t, "nth")}}
}

// P-world: many consumers due for launch or deletion in one block, a fault injected at a drawn call site and position.
var defC19 = register(&PropDef{
	ID: "C19",
	Config: func(t *rapid.T) world.Config {
		cfg := lifecycleConfig(t)
		cfg.Provider.UnbondingTime = time.Duration(rapid.SampledFrom([]int64{20e9, 60e9}).Draw(t, "ubshort"))
		return cfg
	},
	Init: func(w *world.World) { w.InstallInjector() },
	Step: func(t *rapid.T, w *world.World) world.Action {
		if len(w.Agenda) > 0 {
			a := w.Agenda[0]
			w.Agenda = w.Agenda[1:]
			return a
		}
		// arm a fault when the next block will run the operation (a launch or a deletion is due)
		horizon := w.Now.Add(6 * time.Second)
		var scopes []string
		for _, q := range w.ReadQueue(51) {
			if !q.Time.After(horizon) {
				scopes = append(scopes, "launch")
				break
			}
		}
		for _, q := range w.ReadQueue(52) {
			if !q.Time.After(horizon) {
				scopes = append(scopes, "delete")
				break
			}
		}
		if len(scopes) > 0 && rapid.IntRange(0, 99).Draw(t, "fault?") < 45 {
			w.Agenda = append(w.Agenda, world.Action{Kind: world.KBlock, Dt: 6e9})
			return genFault(t, scopes...)
		}
		return lifecycleStep(t, w)
	},
	Monitor: func(w *world.World) oracle.Monitor { return oracle.NewC19(w) },
	Finish:  finishWithBlocks(3),
})

func TestC19(t *testing.T) { runProp(t, defC19) }

// F-world: natural faults (timeouts, expired clients, closed channels) and injected faults in packet sending
// and reward allocation.
var defC19F = register(&PropDef{
	ID:     "C19f",
	Config: fConfig(5),
	Init: func(w *world.World) {
		fInit(w)
		w.InstallInjector()
	},
	Step: func() func(t *rapid.T, w *world.World) world.Action {
		base := fStep(FProfile{MaxConsumers: 2, Remove: true, AbsentC: 20, Raw: true,
			Weights: map[string]int{"fee": 10, "cblock": 14, "relay": 16, "staking": 6, "timeout": 2, "bigdt": 1, "remove": 1, "raw": 2, "errack": 1}})
		rew := rewardStep()
		return func(t *rapid.T, w *world.World) world.Action {
			if len(w.Agenda) == 0 {
				var scopes []string
				ctx := w.P.Ctx()
				k := w.P.PApp.ProviderKeeper
				if !k.GetConsumerRewardsPool(ctx).IsZero() {
					scopes = append(scopes, "alloc")
				}
				if (w.P.Height+1)%k.GetBlocksPerEpoch(ctx) == 0 {
					for _, id := range w.ConsumersInPhase(world.PhLaunched) {
						if _, ok := k.GetConsumerIdToChannelId(ctx, id); ok {
							scopes = append(scopes, "send")
							break
						}
					}
				}
				for _, q := range w.ReadQueue(52) {
					if !q.Time.After(w.Now.Add(5 * time.Second)) {
						scopes = append(scopes, "delete")
						break
					}
				}
				if len(scopes) > 0 && rapid.IntRange(0, 99).Draw(t, "fault?") < 30 {
					w.Agenda = append(w.Agenda, world.Action{Kind: world.KBlock, Dt: int64(rapid.IntRange(1, 5).Draw(t, "fdt")) * 1e9})
					return genFault(t, scopes...)
				}
			}
			if rapid.Bool().Draw(t, "rewardish") {
				return rew(t, w)
			}
			return base(t, w)
		}
	}(),
	Monitor: func(w *world.World) oracle.Monitor { return oracle.NewC19(w) },
	Finish:  finishF,
})

func TestC19F(t *testing.T) { runProp(t, defC19F) }
