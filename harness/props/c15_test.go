package props

import (
	"testing"

	"pgregory.net/rapid"

	"verif/harness/oracle"
	"verif/harness/world"
)

// closing block so that every queued tx is executed and checked
func finishWithBlocks(n int) func(w *world.World, apply func(world.Action)) {
	return func(w *world.World, apply func(world.Action)) {
		for i := 0; i < n; i++ {
			apply(world.Action{Kind: world.KBlock, Dt: 5e9})
		}
	}
}

var defC15 = register(&PropDef{
	ID:   "C15",
	Rule: "a case is non-trivial if some bonded validator entered and some bonded validator left the provider consensus set by crossing the top-M boundary (not by unbonding)",
	Config: func(t *rapid.T) world.Config {
		return world.GenConfig(t, world.CfgOpts{MinVals: 3, MaxVals: 10, SmallM: true, Spare: 3})
	},
	Step: func(t *rapid.T, w *world.World) world.Action {
		kind := world.Weighted(t, "kind", map[string]int{"block": 10, "staking": 12, "gov-m": 2, "gov-maxvals": 1, "ds": 1})
		switch kind {
		case "staking":
			if a, ok := w.GenStaking(t, w.ObserveVals()); ok {
				return a
			}
		case "gov-m":
			n := len(w.ValOrder)
			return world.Action{Kind: world.KGovProviderParm, Sender: "gov", Params: &world.ProviderParams{MaxProviderVal: int64(rapid.IntRange(1, n+2).Draw(t, "newM"))}}
		case "gov-maxvals":
			n := len(w.ValOrder)
			return world.Action{Kind: world.KGovStakingParm, Sender: "gov", Params: &world.ProviderParams{MaxValidators: uint32(rapid.IntRange(2, n+3).Draw(t, "newMaxVals"))}}
		case "ds":
			v := rapid.SampledFrom(w.ValOrder).Draw(t, "dsval")
			if v != world.SafeVal {
				return world.Action{Kind: world.KProviderDS, Val: v, N: int64(rapid.IntRange(0, 3).Draw(t, "dsback"))}
			}
		}
		return w.GenBlock(t, 25)
	},
	Monitor: func(w *world.World) oracle.Monitor { return oracle.NewC15(w) },
	Finish:  finishWithBlocks(2),
})

func TestC15(t *testing.T) { runProp(t, defC15) }
