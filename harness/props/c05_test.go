package props

import (
	"fmt"
	"testing"
	"time"

	"pgregory.net/rapid"

	"verif/harness/oracle"
	"verif/harness/world"
)

var keyOpts = world.ConsumerGenOpts{ChainIDs: []string{"consa-1", "cons-c"}, MaxConsumers: 4, AllowTopN: false, KeyPool: 6, StrangerProb: 3}

// keyStep: frequent key (re)assignments from a small key pool on consumers in all active phases,
// validator creation with known keys, validator removal, time steps around the pruning deadlines.
func keyStep(t *rapid.T, w *world.World) world.Action {
	ncons := len(w.ConsumerIDs())
	weights := map[string]int{"block": 10, "assign": 14, "optin-key": 4, "create": 2, "push": 0, "create-val": 3, "remove-val": 2, "remove": 1, "staking": 1}
	if ncons == 0 {
		weights["create"] = 30
	}
	if ncons >= keyOpts.MaxConsumers {
		weights["create"] = 0
	}
	if len(w.ConsumersInPhase(world.PhReg, world.PhInit)) > 0 {
		weights["push"] = 8
	}
	ids := w.ConsumerIDs()
	switch world.Weighted(t, "kind", weights) {
	case "assign", "optin-key":
		if len(ids) > 0 {
			if a, ok := genKeyMsg(t, w, ids); ok {
				return a
			}
		}
	case "create":
		if a, ok := w.GenCreateConsumer(t, keyOpts); ok {
			a.Spec.Shaping = nil
			return a
		}
	case "push":
		if a, ok := w.GenPushToLaunch(t, keyOpts); ok {
			return a
		}
	case "remove":
		if a, ok := w.GenRemoveConsumer(t, keyOpts); ok {
			return a
		}
	case "staking":
		if a, ok := w.GenStaking(t, w.ObserveVals()); ok {
			return a
		}
	case "create-val":
		for i := 0; i < w.Cfg.SpareAccs; i++ {
			name := fmt.Sprintf("n%d", i)
			if _, exists := w.Vals[name]; exists || w.Busy(name) {
				continue
			}
			key := "prov-" + name
			switch rapid.IntRange(0, 2).Draw(t, "cvkey") {
			case 0:
				key = fmt.Sprintf("k%d", rapid.IntRange(0, keyOpts.KeyPool-1).Draw(t, "cvpool"))
			}
			return world.Action{Kind: world.KCreateValidator, Sender: name, Key: key, Amount: 2_000_000}
		}
	case "remove-val":
		// undelegate everything from a non-safe validator; after the unbonding period it is removed
		var cands []string
		for _, v := range w.ValOrder {
			if v != world.SafeVal && !w.Busy(v) {
				cands = append(cands, v)
			}
		}
		if len(cands) > 0 {
			v := rapid.SampledFrom(cands).Draw(t, "rmval")
			if val, err := w.P.PApp.StakingKeeper.GetValidator(w.P.Ctx(), w.ValAddr(v)); err == nil {
				if del, err := w.P.PApp.StakingKeeper.GetDelegation(w.P.Ctx(), w.P.Accounts[v].Addr(), w.ValAddr(v)); err == nil {
					amt := val.TokensFromShares(del.Shares).TruncateInt().Int64()
					if amt > 0 {
						return world.Action{Kind: world.KUndelegate, Sender: v, Val: v, Amount: amt}
					}
				}
			}
		}
	}
	return w.GenBlock(t, 0)
}

func genKeyMsg(t *rapid.T, w *world.World, ids []string) (world.Action, bool) {
	id := rapid.SampledFrom(ids).Draw(t, "cid")
	val := w.FreeAccount(t, w.ValOrder)
	if val == "" {
		return world.Action{}, false
	}
	var key string
	switch world.Weighted(t, "keyorigin", map[string]int{"pool": 8, "own-prov": 2, "other-prov": 1, "fresh": 1}) {
	case "own-prov":
		key = w.Vals[val].ProvKey
	case "other-prov":
		key = w.Vals[rapid.SampledFrom(w.ValOrder).Draw(t, "otherval")].ProvKey
	case "fresh":
		key = fmt.Sprintf("fresh-%d", len(w.Trace))
	default:
		key = fmt.Sprintf("k%d", rapid.IntRange(0, keyOpts.KeyPool-1).Draw(t, "poolkey"))
	}
	kind := world.KAssignKey
	if rapid.IntRange(0, 4).Draw(t, "viaoptin") == 0 {
		kind = world.KOptIn
	}
	return world.Action{Kind: kind, Sender: val, Val: val, Consumer: id, Key: key}, true
}

func keyConfig(t *rapid.T) world.Config {
	cfg := world.GenConfig(t, world.CfgOpts{MinVals: 3, MaxVals: 6, SmallM: false, Spare: 2})
	// short unbonding periods so that pruning deadlines are crossed often
	cfg.Provider.UnbondingTime = time.Duration(rapid.SampledFrom([]int64{20e9, 60e9, 300e9}).Draw(t, "ubshort"))
	return cfg
}

var defC05 = register(&PropDef{
	ID:      "C05",
	Config:  keyConfig,
	Step:    keyStep,
	Monitor: func(w *world.World) oracle.Monitor { return oracle.NewC05(w) },
	Finish:  finishWithBlocks(2),
})

func TestC05(t *testing.T) { runProp(t, defC05) }

var defC06 = register(&PropDef{
	ID:      "C06",
	Config:  keyConfig,
	Step:    keyStep,
	Monitor: func(w *world.World) oracle.Monitor { return oracle.NewC06(w) },
	Finish:  finishWithBlocks(2),
})

func TestC06(t *testing.T) { runProp(t, defC06) }
