package props

import (
	"testing"
	"time"

	"pgregory.net/rapid"

	"verif/harness/oracle"
	"verif/harness/world"
)

var stopOpts = world.ConsumerGenOpts{ChainIDs: []string{"consa-1", "cons-c"}, MaxConsumers: 5, AllowTopN: true, KeyPool: 6, StrangerProb: 2}

// stopStep (P-world): consumers with rich per-consumer state, stops by owner, time steps around stop + unbonding.
func stopStep(t *rapid.T, w *world.World) world.Action {
	ncons := len(w.ConsumerIDs())
	weights := map[string]int{"block": 10, "create": 3, "push": 0, "vmsg": 12, "update": 4, "remove": 4, "staking": 2, "infra": 2, "ubstep": 2}
	if ncons == 0 {
		weights["create"] = 30
	}
	if ncons >= stopOpts.MaxConsumers {
		weights["create"] = 0
	}
	if len(w.ConsumersInPhase(world.PhReg, world.PhInit)) > 0 {
		weights["push"] = 10
	}
	switch world.Weighted(t, "kind", weights) {
	case "create":
		if a, ok := w.GenCreateConsumer(t, stopOpts); ok {
			return a
		}
	case "push":
		if a, ok := w.GenPushToLaunch(t, stopOpts); ok {
			return a
		}
	case "vmsg":
		if a, ok := w.GenValidatorMsg(t, stopOpts); ok {
			return a
		}
	case "update":
		if a, ok := w.GenUpdateConsumer(t, stopOpts); ok {
			return a
		}
	case "remove":
		if a, ok := w.GenRemoveConsumer(t, stopOpts); ok {
			return a
		}
	case "staking":
		if a, ok := w.GenStaking(t, w.ObserveVals()); ok {
			return a
		}
	case "infra":
		ids := w.ConsumersInPhase(world.PhLaunched)
		if len(ids) > 0 {
			id := rapid.SampledFrom(ids).Draw(t, "cid")
			owner := w.OwnerName(w.ObserveConsumer(id).Owner)
			if owner != "" && owner != "gov" && !w.Busy(owner) {
				return world.Action{Kind: world.KUpdateConsumer, Sender: owner, Consumer: id, Spec: &world.ConsumerSpec{Infraction: genInfraction(t)}}
			}
		}
	case "ubstep":
		ub := int64(w.Cfg.Provider.UnbondingTime)
		return world.Action{Kind: world.KBlock, Dt: ub + int64(rapid.IntRange(-2, 2).Draw(t, "uboff"))}
	}
	return w.GenBlock(t, 5)
}

var defC11 = register(&PropDef{
	ID: "C11",
	Config: func(t *rapid.T) world.Config {
		cfg := world.GenConfig(t, world.CfgOpts{MinVals: 3, MaxVals: 6, SmallM: false, Spare: 1})
		cfg.Provider.UnbondingTime = time.Duration(rapid.SampledFrom([]int64{20e9, 60e9, 300e9}).Draw(t, "ubshort"))
		return cfg
	},
	Step:    stopStep,
	Monitor: func(w *world.World) oracle.Monitor { return oracle.NewC11(w) },
	Finish:  finishWithBlocks(2),
})

func TestC11(t *testing.T) { runProp(t, defC11) }

// F-world part: stops by relayed timeouts of one or several in-flight packets.
var defC11F = register(&PropDef{
	ID: "C11f",
	Config: func(t *rapid.T) world.Config {
		cfg := fConfig(5)(t)
		cfg.Provider.CcvTimeout = time.Duration(rapid.SampledFrom([]int{60, 200}).Draw(t, "ccvto")) * time.Second
		cfg.Provider.UnbondingTime = time.Duration(rapid.SampledFrom([]int{300, 1000}).Draw(t, "ubf2")) * time.Second
		return cfg
	},
	Init: fInit,
	Step: withReportsAfterStop(fStep(FProfile{MaxConsumers: 2, Remove: true, TwoConsumerPrelude: 60, Weights: map[string]int{"timeout": 10, "bigdt": 3, "remove": 0, "staking": 8, "relay": 8, "errack": 2, "raw": 3}})),
	Monitor: func(w *world.World) oracle.Monitor { return oracle.NewC11(w) },
	Finish:  finishF,
})

// withReportsAfterStop adds downtime reports sent by a consumer that the provider has already stopped (its channel
// stays open until the deletion when the owner stopped it): the provider declines them and records the
// acknowledgements, which then exist when the consumer is deleted.
func withReportsAfterStop(base func(t *rapid.T, w *world.World) world.Action) func(t *rapid.T, w *world.World) world.Action {
	return func(t *rapid.T, w *world.World) world.Action {
		if f := w.F(); f != nil && len(w.Agenda) == 0 && len(w.Trace) > 1 {
			for _, id := range w.ConsumersInPhase(world.PhStopped) {
				p := f.Paths[id]
				if p == nil || p.C.Halted {
					continue
				}
				if _, ok := p.C.CApp.ConsumerKeeper.GetProviderChannel(p.C.Ctx()); !ok {
					continue
				}
				if rapid.IntRange(0, 2).Draw(t, "report-after-stop") != 0 {
					continue
				}
				raw := genRawPacket(t, w, id)
				raw.Pkt.Infraction = "downtime"
				w.Agenda = append(w.Agenda,
					world.Action{Kind: world.KBlock, Chain: id, Dt: 1e9},
					world.Action{Kind: world.KBlock, Chain: id, Dt: 1e9},
					world.Action{Kind: world.KRelay, Consumer: id, Relay: &world.RelaySpec{Op: "recv", Dir: "c2p", K: 2}},
					world.Action{Kind: world.KBlock, Dt: 2e9})
				return raw
			}
		}
		// sometimes the owner stops a consumer whose channel is established, and the consumer keeps reporting
		if f := w.F(); f != nil && len(w.Agenda) == 0 && len(w.Trace) > 1 && rapid.IntRange(0, 999).Draw(t, "stop-then-report") < 3 {
			for _, id := range w.ConsumersInPhase(world.PhLaunched) {
				p := f.Paths[id]
				if p == nil || p.C.Halted {
					continue
				}
				if _, ok := p.C.CApp.ConsumerKeeper.GetProviderChannel(p.C.Ctx()); !ok {
					continue
				}
				owner := w.OwnerName(w.ObserveConsumer(id).Owner)
				if owner == "" || owner == "gov" || w.Busy(owner) {
					continue
				}
				raw := genRawPacket(t, w, id)
				raw.Pkt.Infraction = "downtime"
				w.Agenda = append(w.Agenda,
					world.Action{Kind: world.KBlock, Dt: 2e9},
					raw,
					world.Action{Kind: world.KBlock, Chain: id, Dt: 1e9},
					world.Action{Kind: world.KBlock, Chain: id, Dt: 1e9},
					world.Action{Kind: world.KRelay, Consumer: id, Relay: &world.RelaySpec{Op: "recv", Dir: "c2p", K: 2}},
					world.Action{Kind: world.KBlock, Dt: 2e9})
				return world.Action{Kind: world.KRemoveConsumer, Sender: owner, Consumer: id}
			}
		}
		return base(t, w)
	}
}

func TestC11F(t *testing.T) { runProp(t, defC11F) }
