package props

import (
	"testing"

	"pgregory.net/rapid"

	"verif/harness/oracle"
	"verif/harness/world"
)

var authOpts = world.ConsumerGenOpts{ChainIDs: []string{"consa-1", "consb-2", "cons-c"}, MaxConsumers: 6, AllowTopN: true, KeyPool: 4, StrangerProb: 35}

// authStep samples message type x sender class x consumer phase.
func authStep(t *rapid.T, w *world.World) world.Action {
	if len(w.Agenda) > 0 {
		a := w.Agenda[0]
		w.Agenda = w.Agenda[1:]
		return a
	}
	ncons := len(w.ConsumerIDs())
	weights := map[string]int{"block": 10, "staking": 2, "create": 4, "update": 10, "vmsg": 10, "remove": 4, "push": 0, "authority": 4, "owner-to-gov": 2, "topn-journey": 2}
	if ncons == 0 {
		weights["create"] = 30
	}
	if ncons >= authOpts.MaxConsumers {
		weights["create"] = 0
	}
	if len(w.ConsumersInPhase(world.PhReg, world.PhInit)) > 0 {
		weights["push"] = 6
	}
	switch world.Weighted(t, "kind", weights) {
	case "staking":
		if a, ok := w.GenStaking(t, w.ObserveVals()); ok {
			return a
		}
	case "create":
		if a, ok := w.GenCreateConsumer(t, authOpts); ok {
			if rapid.IntRange(0, 9).Draw(t, "createTopN") == 0 && a.Spec.Shaping != nil {
				a.Spec.Shaping.TopN = 67 // must be rejected
			}
			return a
		}
	case "update":
		if a, ok := w.GenUpdateConsumer(t, authOpts); ok {
			return a
		}
	case "remove":
		if a, ok := w.GenRemoveConsumer(t, authOpts); ok {
			return a
		}
	case "vmsg":
		if a, ok := w.GenValidatorMsg(t, authOpts); ok {
			return a
		}
	case "push":
		if a, ok := w.GenPushToLaunch(t, authOpts); ok {
			return a
		}
	case "owner-to-gov":
		ids := w.ConsumersInPhase(world.PhReg, world.PhInit, world.PhLaunched)
		if len(ids) > 0 {
			id := rapid.SampledFrom(ids).Draw(t, "cid")
			owner := w.OwnerName(w.ObserveConsumer(id).Owner)
			if owner != "" && owner != "gov" && !w.Busy(owner) {
				spec := &world.ConsumerSpec{NewOwner: "gov"}
				if rapid.Bool().Draw(t, "withTopN") {
					spec.Shaping = &world.ShapingSpec{TopN: 80} // owner and Top-N in one message: must be rejected
				}
				return world.Action{Kind: world.KUpdateConsumer, Sender: owner, Consumer: id, Spec: spec}
			}
		}
	case "topn-journey":
		// a consumer is handed to governance, governance makes it Top-N, then governance hands it back to a user,
		// with or without clearing Top-N in the same proposal (without: must be rejected)
		ids := w.ConsumersInPhase(world.PhReg, world.PhInit, world.PhLaunched)
		if len(ids) > 0 && !w.Busy(world.GovProposer) {
			id := rapid.SampledFrom(ids).Draw(t, "jid")
			co := w.ObserveConsumer(id)
			owner := w.OwnerName(co.Owner)
			user := rapid.SampledFrom([]string{"alice", "bob", "carol"}).Draw(t, "juser")
			wait := func(n int) {
				for i := 0; i < n; i++ {
					w.Agenda = append(w.Agenda, world.Action{Kind: world.KBlock, Dt: 5e9})
				}
			}
			back := &world.ConsumerSpec{NewOwner: user}
			if rapid.Bool().Draw(t, "jclear") {
				back.Shaping = &world.ShapingSpec{TopN: 0, PowerCap: 30}
			}
			setTopN := world.Action{Kind: world.KUpdateConsumer, Sender: "gov", Consumer: id, Spec: &world.ConsumerSpec{Shaping: &world.ShapingSpec{TopN: uint32(rapid.SampledFrom([]int{50, 67, 100}).Draw(t, "jtopn"))}}}
			handBack := world.Action{Kind: world.KUpdateConsumer, Sender: "gov", Consumer: id, Spec: back}
			switch {
			case owner == "gov" && co.Shaping.Top_N > 0:
				w.Agenda = append(w.Agenda, handBack)
				wait(4)
			case owner == "gov":
				w.Agenda = append(w.Agenda, setTopN)
				wait(4)
				w.Agenda = append(w.Agenda, handBack)
				wait(4)
			case owner != "" && !w.Busy(owner):
				w.Agenda = append(w.Agenda, world.Action{Kind: world.KUpdateConsumer, Sender: owner, Consumer: id, Spec: &world.ConsumerSpec{NewOwner: "gov"}})
				wait(2)
				w.Agenda = append(w.Agenda, setTopN)
				wait(4)
				w.Agenda = append(w.Agenda, handBack)
				wait(4)
			}
			if len(w.Agenda) > 0 {
				a := w.Agenda[0]
				w.Agenda = w.Agenda[1:]
				return a
			}
		}
	case "authority":
		kind := rapid.SampledFrom([]string{world.KTxProviderParm, world.KTxRewardDenoms, world.KGovProviderParm, world.KGovRewardDenoms}).Draw(t, "authkind")
		sender := "gov"
		if kind == world.KTxProviderParm || kind == world.KTxRewardDenoms {
			sender = w.FreeAccount(t, append([]string{"alice", "bob", "carol"}, w.ValOrder...))
			if sender == "" {
				break
			}
		} else if w.Busy(world.GovProposer) {
			break
		}
		a := world.Action{Kind: kind, Sender: sender}
		if kind == world.KTxProviderParm || kind == world.KGovProviderParm {
			a.Params = &world.ProviderParams{BlocksPerEpoch: int64(rapid.IntRange(1, 5).Draw(t, "newbpe"))}
		} else {
			a.Denoms = []string{rapid.SampledFrom([]string{"ibc/AAA", "ibc/BBB", "stake"}).Draw(t, "denomadd")}
		}
		return a
	}
	return w.GenBlock(t, 5)
}

var defC14 = register(&PropDef{
	ID:      "C14",
	Config:  lifecycleConfig,
	Step:    authStep,
	Monitor: func(w *world.World) oracle.Monitor { return oracle.NewC14(w) },
	Finish:  finishWithBlocks(3),
})

func TestC14(t *testing.T) { runProp(t, defC14) }
