package props

import (
	"testing"

	"pgregory.net/rapid"

	"verif/harness/oracle"
	"verif/harness/world"
)

var shapingOpts = world.ConsumerGenOpts{ChainIDs: []string{"consa-1", "consb-2", "cons-c"}, MaxConsumers: 4, AllowTopN: true, KeyPool: 6, StrangerProb: 5}

// shapingStep is the generator shared by C02, C03 (history part) and C04 (composition part):
// consumers with all shaping combinations, opt-ins/outs, key assignments, staking changes, jailing.
func shapingStep(t *rapid.T, w *world.World) world.Action {
	ncons := len(w.ConsumerIDs())
	weights := map[string]int{"block": 12, "staking": 8, "create": 3, "update": 4, "vmsg": 10, "gov-m": 1, "remove": 1, "optin-all": 2, "push": 0}
	if ncons == 0 {
		weights["create"] = 40
	}
	// consumers waiting for launch with few opt-ins: make opt-ins likely so that launches succeed
	if len(w.ConsumersInPhase(world.PhReg, world.PhInit)) > 0 {
		weights["push"] = 14
	}
	if ncons >= shapingOpts.MaxConsumers {
		weights["create"] = 0
	}
	switch world.Weighted(t, "kind", weights) {
	case "staking":
		if a, ok := w.GenStaking(t, w.ObserveVals()); ok {
			return a
		}
	case "create":
		if a, ok := w.GenCreateConsumer(t, shapingOpts); ok {
			return a
		}
	case "update":
		if a, ok := w.GenUpdateConsumer(t, shapingOpts); ok {
			return a
		}
	case "remove":
		if a, ok := w.GenRemoveConsumer(t, shapingOpts); ok {
			return a
		}
	case "vmsg":
		if a, ok := w.GenValidatorMsg(t, shapingOpts); ok {
			return a
		}
	case "push":
		if a, ok := w.GenPushToLaunch(t, shapingOpts); ok {
			return a
		}
	case "optin-all":
		// one more opt-in from a free validator for a pre-launch or launched consumer
		ids := w.ConsumersInPhase(world.PhReg, world.PhInit, world.PhLaunched)
		if len(ids) > 0 {
			id := rapid.SampledFrom(ids).Draw(t, "cid")
			v := w.FreeAccount(t, w.ValOrder)
			if v != "" {
				return world.Action{Kind: world.KOptIn, Sender: v, Val: v, Consumer: id}
			}
		}
	case "gov-m":
		n := len(w.ValOrder)
		return world.Action{Kind: world.KGovProviderParm, Sender: "gov", Params: &world.ProviderParams{MaxProviderVal: int64(rapid.IntRange(1, n+2).Draw(t, "newM"))}}
	}
	return w.GenBlock(t, 20)
}

func shapingConfig(t *rapid.T) world.Config {
	return world.GenConfig(t, world.CfgOpts{MinVals: 3, MaxVals: 10, SmallM: true, Spare: 2})
}

var defC02 = register(&PropDef{
	ID:      "C02",
	Config:  shapingConfig,
	Step:    shapingStep,
	Monitor: func(w *world.World) oracle.Monitor { return oracle.NewC02(w) },
	Finish:  finishWithBlocks(3),
})

func TestC02(t *testing.T) { runProp(t, defC02) }
