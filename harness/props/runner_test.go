// Package props contains the property tests (one Test function per property), the replay test and the
// shared runner that records evidence statistics and failure traces.
package props

import (
	"crypto/sha256"
	"encoding/hex"
	"encoding/json"
	"fmt"
	"os"
	"sort"
	"strings"
	"testing"

	"pgregory.net/rapid"

	"verif/harness/oracle"
	"verif/harness/sim"
	"verif/harness/world"
)

// PropDef defines how one property is explored.
type PropDef struct {
	ID      string
	Rule    string // the non-trivial rule, in words
	Config  func(t *rapid.T) world.Config
	Init    func(w *world.World)                   // deterministic preparation after world creation (optional)
	Step    func(t *rapid.T, w *world.World) world.Action
	Monitor func(w *world.World) oracle.Monitor
	// Finish is called at the end of a case (may apply closing actions through apply)
	Finish func(w *world.World, apply func(world.Action))
}

var registry = map[string]*PropDef{}

var debugLog = os.Getenv("VERIF_DEBUG") != ""

func register(d *PropDef) *PropDef { registry[d.ID] = d; return d }

// TraceFile is the replay format.
type TraceFile struct {
	Property string         `json:"property"`
	Kind     string         `json:"kind"` // violation | harness
	Sig      string         `json:"sig,omitempty"`
	Message  string         `json:"message"`
	Config   world.Config   `json:"config"`
	Actions  []world.Action `json:"actions"`
}

type stats struct {
	Property    string         `json:"property"`
	Cases       int            `json:"cases"`
	NonTrivial  int            `json:"nontrivial"`
	Hashes      map[string]bool `json:"-"`
	Distinct    int            `json:"distinct_nontrivial"`
	Steps       int            `json:"steps"`
	Blocks      int            `json:"blocks"`
	Checks      int            `json:"oracle_checks"`
	Labels      map[string]int `json:"labels"`
	Samples     [][]string     `json:"samples"`
	KnownHits   map[string]int `json:"known_hits"`
	Skipped     int            `json:"skipped_actions"`
	TxOK        int            `json:"tx_ok"`
	TxFail      int            `json:"tx_fail"`
	HashList    []string       `json:"hashes"`
}

func newStats(id string) *stats {
	return &stats{Property: id, Hashes: map[string]bool{}, Labels: map[string]int{}, KnownHits: map[string]int{}}
}

func (s *stats) flush() {
	path := os.Getenv("VERIF_STATS")
	if path == "" {
		return
	}
	s.Distinct = len(s.Hashes)
	s.HashList = nil
	for h := range s.Hashes {
		s.HashList = append(s.HashList, h)
	}
	sort.Strings(s.HashList)
	b, _ := json.Marshal(s)
	_ = os.WriteFile(path, b, 0o644)
}

func traceHash(w *world.World) string {
	h := sha256.New()
	b, _ := json.Marshal(w.Cfg)
	h.Write(b)
	for _, a := range w.Trace {
		h.Write([]byte(a.String()))
	}
	return hex.EncodeToString(h.Sum(nil))[:16]
}

func compactTrace(w *world.World, max int) []string {
	var out []string
	cfg, _ := json.Marshal(w.Cfg.Provider.Validators)
	out = append(out, fmt.Sprintf("config: vals=%s M=%d maxvals=%d bpe=%d ub=%s", cfg, w.Cfg.Provider.MaxProviderVal, w.Cfg.Provider.MaxValidators, w.Cfg.Provider.BlocksPerEpoch, w.Cfg.Provider.UnbondingTime))
	for i, a := range w.Trace {
		if i >= max {
			out = append(out, fmt.Sprintf("... %d more actions", len(w.Trace)-max))
			break
		}
		out = append(out, a.String())
	}
	return out
}

// known findings (loaded once)
type knownFinding struct {
	Property string `json:"property"`
	Sig      string `json:"sig"`
	Status   string `json:"status"` // known | fixed
	Text     string `json:"text"`
	Commit   string `json:"commit,omitempty"`
	Trace    string `json:"trace,omitempty"`
}

var knownFindings = loadKnown()

func loadKnown() map[string]knownFinding {
	out := map[string]knownFinding{}
	path := os.Getenv("VERIF_KNOWN")
	if path == "" {
		path = "/verif/known_findings.json"
	}
	b, err := os.ReadFile(path)
	if err != nil {
		return out
	}
	var doc struct {
		Findings []knownFinding `json:"findings"`
	}
	if json.Unmarshal(b, &doc) != nil {
		return out
	}
	for _, f := range doc.Findings {
		if f.Status == "known" {
			out[f.Property+"/"+f.Sig] = f
		}
	}
	return out
}

func writeFail(def *PropDef, w *world.World, kind, sig, msg string) {
	path := os.Getenv("VERIF_FAIL")
	if path == "" {
		return
	}
	tf := TraceFile{Property: def.ID, Kind: kind, Sig: sig, Message: msg, Config: w.Cfg, Actions: w.Trace}
	b, _ := json.MarshalIndent(tf, "", " ")
	_ = os.WriteFile(path, b, 0o644)
}

// caseRunner applies actions with the monitors attached.
type caseRunner struct {
	def   *PropDef
	w     *world.World
	mon   oracle.Monitor
	st    *stats
	fail  func(format string, args ...interface{})
	muted bool
}

func (c *caseRunner) apply(a world.Action) *world.StepResult {
	var res *world.StepResult
	func() {
		defer func() {
			if r := recover(); r != nil {
				if he, ok := r.(sim.HarnessError); ok {
					writeFail(c.def, c.w, "harness", "", he.Error())
					c.fail("HARNESS: %s", he.Error())
					return
				}
				panic(r)
			}
		}()
		if !c.muted {
			c.mon.Before(c.w, &a)
		}
		res = c.w.Apply(a)
		if res.Skipped != "" {
			c.st.Skipped++
		}
		if debugLog {
			if res.Skipped != "" {
				fmt.Printf("  [%d] %s SKIPPED: %s\n", len(c.w.Trace)-1, a.String(), res.Skipped)
			} else if res.Block == nil {
				fmt.Printf("  [%d] %s\n", len(c.w.Trace)-1, a.String())
			} else {
				fmt.Printf("  [%d] block h=%d t=%s\n", len(c.w.Trace)-1, res.Block.Height, res.Block.Time.Format("15:04:05"))
				for _, tx := range res.Txs {
					fmt.Printf("      tx[%d] %s code=%d %s\n", tx.Idx, tx.Action.Kind, tx.Code, tx.Log)
				}
				for _, g := range res.Gov {
					fmt.Printf("      gov[%d] %s %s %s\n", g.Idx, g.Action.Kind, g.Status, g.Reason)
				}
				for _, id := range c.w.ConsumerIDs() {
					co := c.w.ObserveConsumer(id)
					fmt.Printf("      consumer %s phase=%s owner=%s topN=%d optedin=%d set=%d\n", id, co.Phase, c.w.OwnerName(co.Owner), co.Shaping.Top_N, len(co.OptedIn), len(co.Set))
				}
			}
		}
		if res.Block != nil {
			c.st.Blocks++
			for _, tx := range res.Txs {
				if tx.OK() {
					c.st.TxOK++
				} else {
					c.st.TxFail++
				}
			}
		}
		c.st.Steps++
		if c.muted {
			return
		}
		if v := c.mon.After(c.w, &c.w.Trace[len(c.w.Trace)-1], res); v != nil {
			if kf, ok := knownFindings[c.def.ID+"/"+v.Sig]; ok {
				c.st.KnownHits[v.Sig]++
				_ = kf
				c.muted = true // the rest of this case runs without oracles (state after a known defect)
				return
			}
			writeFail(c.def, c.w, "violation", v.Sig, v.Error())
			c.fail("VIOLATION %s: %s\ntrace:\n%s", c.def.ID, v.Error(), strings.Join(compactTrace(c.w, 200), "\n"))
		}
	}()
	return res
}

func (c *caseRunner) finish(closing bool) {
	if closing && c.def.Finish != nil {
		c.def.Finish(c.w, func(a world.Action) { c.apply(a) })
	}
	c.st.Cases++
	c.st.Checks += c.mon.Checks()
	for l := range c.w.Labels {
		c.st.Labels[l]++
	}
	if c.mon.NonTrivial(c.w) {
		c.st.NonTrivial++
		h := traceHash(c.w)
		if !c.st.Hashes[h] {
			c.st.Hashes[h] = true
			if len(c.st.Samples) < 3 {
				c.st.Samples = append(c.st.Samples, compactTrace(c.w, 60))
			}
		}
	}
}

func runProp(t *testing.T, def *PropDef) {
	st := newStats(def.ID)
	defer st.flush()
	rapid.Check(t, func(rt *rapid.T) {
		cfg := def.Config(rt)
		w := world.New(cfg)
		if def.Init != nil {
			def.Init(w)
		}
		c := &caseRunner{def: def, w: w, st: st, fail: rt.Fatalf}
		c.mon = oracle.Multi{&oracle.Survival{}, def.Monitor(w)}
		// block 1 commits the genesis state (nothing can be observed from the stores before it)
		c.apply(world.Action{Kind: world.KBlock, Dt: 5e9})
		rt.Repeat(map[string]func(*rapid.T){
			"step": func(rt *rapid.T) {
				c.fail = rt.Fatalf
				a := def.Step(rt, w)
				c.apply(a)
			},
		})
		c.fail = rt.Fatalf
		c.finish(true)
	})
}

// TestReplay re-executes a saved trace without rapid.
func TestReplay(t *testing.T) {
	path := os.Getenv("VERIF_REPLAY")
	if path == "" {
		t.Skip("VERIF_REPLAY not set")
	}
	b, err := os.ReadFile(path)
	if err != nil {
		t.Fatalf("HARNESS: read replay: %v", err)
	}
	var pf PureFail
	if json.Unmarshal(b, &pf) == nil && pf.Pure != "" {
		replayPure(t, pf)
		return
	}
	var tf TraceFile
	if err := json.Unmarshal(b, &tf); err != nil {
		t.Fatalf("HARNESS: parse replay: %v", err)
	}
	id := tf.Property
	if p := os.Getenv("VERIF_PROP"); p != "" {
		id = p
	}
	def, ok := registry[id]
	if !ok {
		t.Fatalf("HARNESS: unknown property %q", id)
	}
	st := newStats(def.ID)
	defer st.flush()
	w := world.New(tf.Config)
	if def.Init != nil {
		def.Init(w)
	}
	c := &caseRunner{def: def, w: w, st: st, fail: t.Fatalf}
	c.mon = oracle.Multi{&oracle.Survival{}, def.Monitor(w)}
	for _, a := range tf.Actions {
		c.apply(a)
	}
	c.finish(false)
	for sig, n := range st.KnownHits {
		t.Logf("KNOWN-HIT %s x%d", sig, n)
	}
}
