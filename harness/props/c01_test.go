package props

import (
	"testing"

	"verif/harness/oracle"
	"verif/harness/world"
)

var defC01 = register(&PropDef{
	ID:      "C01",
	Config:  fConfig(7),
	Init:    fInit,
	Step:    fStep(FProfile{MaxConsumers: 2}),
	Monitor: func(w *world.World) oracle.Monitor { return oracle.NewC01(w) },
	Finish:  finishF,
})

func TestC01(t *testing.T) { runProp(t, defC01) }
