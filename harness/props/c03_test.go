package props

import (
	"testing"

	"pgregory.net/rapid"

	"verif/harness/oracle"
	"verif/harness/world"
)

// topNStep biases the shaping generator towards governance-owned Top-N consumers and opt-out attempts.
func topNStep(t *rapid.T, w *world.World) world.Action {
	if rapid.IntRange(0, 99).Draw(t, "guided") < 35 && !w.Busy(world.GovProposer) {
		ids := w.ConsumersInPhase(world.PhReg, world.PhInit, world.PhLaunched)
		var userOwned, govPlain, govTopN, launchedTopN []string
		for _, id := range ids {
			co := w.ObserveConsumer(id)
			switch {
			case w.OwnerName(co.Owner) != "gov":
				userOwned = append(userOwned, id)
			case co.Shaping.Top_N == 0:
				govPlain = append(govPlain, id)
			default:
				govTopN = append(govTopN, id)
				if co.Phase == world.PhLaunched {
					launchedTopN = append(launchedTopN, id)
				}
			}
		}
		choice := world.Weighted(t, "guide", map[string]int{"togov": 3 * len(userOwned), "totopn": 6 * len(govPlain), "optout": 6 * len(launchedTopN), "retopn": 2 * len(govTopN), "none": 1})
		switch choice {
		case "togov":
			id := rapid.SampledFrom(userOwned).Draw(t, "cid")
			owner := w.OwnerName(w.ObserveConsumer(id).Owner)
			if owner != "" && !w.Busy(owner) {
				return world.Action{Kind: world.KUpdateConsumer, Sender: owner, Consumer: id, Spec: &world.ConsumerSpec{NewOwner: "gov"}}
			}
		case "totopn", "retopn":
			src := govPlain
			if choice == "retopn" {
				src = govTopN
			}
			id := rapid.SampledFrom(src).Draw(t, "cid")
			sh := w.GenShaping(t, true)
			if rapid.IntRange(0, 2).Draw(t, "plainTopN") > 0 {
				sh = &world.ShapingSpec{TopN: sh.TopN, AllowInactive: sh.AllowInactive}
			}
			return world.Action{Kind: world.KUpdateConsumer, Sender: "gov", Consumer: id, Spec: &world.ConsumerSpec{Shaping: sh}}
		case "optout":
			id := rapid.SampledFrom(launchedTopN).Draw(t, "cid")
			v := w.FreeAccount(t, w.ValOrder)
			if v != "" {
				return world.Action{Kind: world.KOptOut, Sender: v, Val: v, Consumer: id}
			}
		}
	}
	return shapingStep(t, w)
}

var defC03 = register(&PropDef{
	ID:      "C03",
	Config:  shapingConfig,
	Step:    topNStep,
	Monitor: func(w *world.World) oracle.Monitor { return oracle.NewC03(w) },
	Finish:  finishWithBlocks(3),
})

func TestC03(t *testing.T) { runProp(t, defC03) }

var defC04 = register(&PropDef{
	ID:      "C04",
	Config:  shapingConfig,
	Step:    shapingStep,
	Monitor: func(w *world.World) oracle.Monitor { return oracle.NewC04Composition(w) },
	Finish:  finishWithBlocks(3),
})

func TestC04(t *testing.T) { runProp(t, defC04) }
