package props

import (
	"testing"
	"time"

	"cosmossdk.io/math"
	sdk "github.com/cosmos/cosmos-sdk/types"
	stakingtypes "github.com/cosmos/cosmos-sdk/x/staking/types"

	"verif/harness/sim"
)

func TestSmoke(t *testing.T) {
	keys := sim.NewKeyStore()
	cfg := sim.DefaultProviderConfig(5)
	cfg.MaxProviderVal = 3
	start := time.Now()
	p := sim.NewProvider(cfg, keys)
	t.Logf("init %v vals=%d", time.Since(start), len(p.Vals.Validators))
	for i := 0; i < 20; i++ {
		if i == 3 {
			p.QueueTx("delegate", "alice", stakingtypes.NewMsgDelegate(p.Accounts["alice"].Bech32(), p.Accounts["v0"].ValAddr().String(), sdk.NewCoin(sim.BondDenom, math.NewInt(7_000_000))))
		}
		votes := sim.Votes{Absent: map[string]bool{}}
		if i > 5 {
			votes.Absent[keys.Get(sim.ConsKeyName("v4")).Priv.PubKey().Address().String()] = true
		}
		br := p.ProduceBlock(5*time.Second, votes, nil)
		if br.Failed() {
			t.Fatalf("block %d failed: %v %v", br.Height, br.Err, br.Panic)
		}
		for j, r := range br.Resp.TxResults {
			t.Logf("h=%d tx %s code=%d log=%s", br.Height, br.TxNames[j], r.Code, r.Log)
		}
		if len(br.Resp.ValidatorUpdates) > 0 {
			t.Logf("h=%d updates=%v", br.Height, br.Resp.ValidatorUpdates)
		}
	}
	t.Logf("total %v engine=%v", time.Since(start), sim.SetAsMap(p.Vals))
}
