package props

import (
	"testing"
	"time"

	"pgregory.net/rapid"

	"verif/harness/oracle"
	"verif/harness/world"
)

var infraOpts = world.ConsumerGenOpts{ChainIDs: []string{"consa-1", "cons-c"}, MaxConsumers: 5, KeyPool: 3, StrangerProb: 3}

func genInfraction(t *rapid.T) *world.InfractionSpec {
	s := &world.InfractionSpec{}
	which := rapid.IntRange(0, 2).Draw(t, "infrapart")
	if which == 0 || which == 2 {
		s.HasDS = true
		s.DSJail = int64(rapid.SampledFrom([]int{0, 100, 5000, 1000000}).Draw(t, "dsjail"))
		s.DSFrac = rapid.SampledFrom([]string{"0.0", "0.05", "0.3", "1.0"}).Draw(t, "dsfrac")
		s.DSTomb = rapid.Bool().Draw(t, "dstomb")
	}
	if which == 1 || which == 2 {
		s.HasDT = true
		s.DTJail = int64(rapid.SampledFrom([]int{0, 7, 60, 900}).Draw(t, "dtjail"))
		s.DTFrac = rapid.SampledFrom([]string{"0.0", "0.01", "0.2"}).Draw(t, "dtfrac")
	}
	return s
}

// infraStep: request sequences (partial, repeated, cancelling) before and after launch, time steps around the due times,
// removal with a pending change.
func infraStep(t *rapid.T, w *world.World) world.Action {
	ncons := len(w.ConsumerIDs())
	weights := map[string]int{"block": 10, "create": 3, "push": 0, "infra": 14, "remove": 2, "repeat": 3}
	if ncons == 0 {
		weights["create"] = 30
	}
	if ncons >= infraOpts.MaxConsumers {
		weights["create"] = 0
	}
	if len(w.ConsumersInPhase(world.PhReg, world.PhInit)) > 0 {
		weights["push"] = 10
	}
	switch world.Weighted(t, "kind", weights) {
	case "create":
		if a, ok := w.GenCreateConsumer(t, infraOpts); ok {
			a.Spec.Shaping = nil
			if rapid.Bool().Draw(t, "createinfra") {
				a.Spec.Infraction = genInfraction(t)
			}
			return a
		}
	case "push":
		if a, ok := w.GenPushToLaunch(t, infraOpts); ok {
			return a
		}
	case "remove":
		if a, ok := w.GenRemoveConsumer(t, infraOpts); ok {
			return a
		}
	case "infra", "repeat":
		ids := w.ConsumersInPhase(world.PhReg, world.PhInit, world.PhLaunched, world.PhStopped)
		if len(ids) > 0 {
			id := rapid.SampledFrom(ids).Draw(t, "cid")
			owner := w.OwnerName(w.ObserveConsumer(id).Owner)
			if owner != "" && owner != "gov" && !w.Busy(owner) {
				spec := genInfraction(t)
				if rapid.IntRange(0, 3).Draw(t, "cancel") == 0 {
					// request exactly the values in force (cancels a pending change)
					if cur, err := w.P.PApp.ProviderKeeper.GetInfractionParameters(w.P.Ctx(), id); err == nil && cur.DoubleSign != nil && cur.Downtime != nil {
						spec = &world.InfractionSpec{HasDT: true, DTJail: int64(cur.Downtime.JailDuration / time.Second), DTFrac: cur.Downtime.SlashFraction.String()}
						if cur.DoubleSign.JailDuration%time.Second == 0 && cur.DoubleSign.JailDuration < time.Duration(1<<62) {
							spec.HasDS, spec.DSJail, spec.DSFrac, spec.DSTomb = true, int64(cur.DoubleSign.JailDuration/time.Second), cur.DoubleSign.SlashFraction.String(), cur.DoubleSign.Tombstone
						}
					}
				}
				return world.Action{Kind: world.KUpdateConsumer, Sender: owner, Consumer: id, Spec: &world.ConsumerSpec{Infraction: spec}}
			}
		}
	}
	return w.GenBlock(t, 0)
}

var defC20 = register(&PropDef{
	ID:      "C20",
	Config:  keyConfig,
	Step:    infraStep,
	Monitor: func(w *world.World) oracle.Monitor { return oracle.NewC20(w) },
	Finish:  finishWithBlocks(2),
})

func TestC20(t *testing.T) { runProp(t, defC20) }
