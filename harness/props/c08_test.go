package props

import (
	"testing"
	"time"

	"pgregory.net/rapid"

	"verif/harness/oracle"
	"verif/harness/sim"
	"verif/harness/world"
)

func slashInit(retry time.Duration) func(w *world.World) {
	return func(w *world.World) {
		cc := sim.DefaultConsumerConfig()
		cc.RetryDelay = retry
		cc.SignedBlocksWindow = 2
		w.EnableConsumers(cc)
	}
}

var slashProfile = FProfile{MaxConsumers: 2, AbsentC: 50, AbsentP: 5, Raw: true, Remove: false,
	Weights: map[string]int{"raw": 5, "cblock": 18, "relay": 18, "staking": 4, "vmsg": 4, "remove": 1, "unjail": 2, "throttle": 1}}

var defC08 = register(&PropDef{
	ID:      "C08",
	Config:  fConfig(6),
	Init:    slashInit(20 * time.Second),
	Step:    fStep(slashProfile),
	Monitor: func(w *world.World) oracle.Monitor { return oracle.NewC08(w) },
	Finish:  finishF,
})

func TestC08(t *testing.T) { runProp(t, defC08) }

var throttleProfile = FProfile{MaxConsumers: 2, AbsentC: 60, AbsentP: 0, Raw: true,
	Weights: map[string]int{"raw": 6, "cblock": 20, "relay": 20, "staking": 3, "vmsg": 2, "pblock": 12, "throttle": 5}}

var defC09 = register(&PropDef{
	ID: "C09",
	Config: func(t *rapid.T) world.Config {
		cfg := fConfig(7)(t)
		cfg.Provider.ReplenishFraction = rapid.SampledFrom([]string{"0.01", "0.05", "0.1", "0.3"}).Draw(t, "rfrac2")
		cfg.Provider.ReplenishPeriod = time.Duration(rapid.SampledFrom([]int{5, 20, 60, 600}).Draw(t, "rper2")) * time.Second
		return cfg
	},
	Init:    slashInit(10 * time.Second),
	Step:    fStep(throttleProfile),
	Monitor: func(w *world.World) oracle.Monitor { return oracle.NewC09(w) },
	Finish:  finishF,
})

func TestC09(t *testing.T) { runProp(t, defC09) }
