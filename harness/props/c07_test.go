package props

import (
	"fmt"
	"testing"

	"pgregory.net/rapid"

	providertypes "github.com/cosmos/interchain-security/v7/x/ccv/provider/types"

	"verif/harness/oracle"
	"verif/harness/world"
)

// HasQueued reports whether any tx is queued for the next provider block.
func evidenceQueued(w *world.World) bool {
	for i := len(w.Trace) - 1; i >= 0; i-- {
		k := w.Trace[i].Kind
		if k == world.KBlock {
			return false
		}
		if k == world.KDoubleVote || k == world.KMisbehaviour {
			return true
		}
	}
	return false
}

func txQueued(w *world.World) bool {
	for i := len(w.Trace) - 1; i >= 0; i-- {
		if w.Trace[i].Kind == world.KBlock {
			return false
		}
		return true
	}
	return false
}

// evidenceStep: key histories as in C05 plus stake layouts with live unbonding/redelegation entries, then
// valid evidence with zero or one named mutation, each in a block of its own.
func evidenceStep(t *rapid.T, w *world.World) world.Action {
	if evidenceQueued(w) {
		return world.Action{Kind: world.KBlock, Dt: int64(rapid.IntRange(1, 6).Draw(t, "dts")) * 1e9}
	}
	launched := w.ConsumersInPhase(world.PhLaunched, world.PhStopped)
	if len(launched) > 0 && rapid.IntRange(0, 99).Draw(t, "evidence?") < 30 {
		if txQueued(w) || len(w.Proposals) > 0 && w.Busy(w.ValOrder[0]) {
			return world.Action{Kind: world.KBlock, Dt: int64(rapid.IntRange(1, 6).Draw(t, "dts")) * 1e9}
		}
		id := rapid.SampledFrom(launched).Draw(t, "cid")
		co := w.ObserveConsumer(id)
		sender := rapid.SampledFrom([]string{"alice", "bob", "carol"}).Draw(t, "submitter")
		if rapid.IntRange(0, 3).Draw(t, "misb?") == 0 {
			// light-client attack: signers drawn from the keys of the initial validator set
			gen, ok := w.P.PApp.ProviderKeeper.GetConsumerGenesis(w.P.Ctx(), id)
			if ok {
				var names []string
				for _, u := range gen.Provider.InitialValSet {
					ca, _ := world.ConsAddrOfProtoKey(&u.PubKey)
					if n := w.KeyNameByAddr(ca); n != "" && !resolvesToSafe(w, id, n) {
						names = append(names, n)
					}
				}
				if len(names) > 0 {
					mut := rapid.SampledFrom(world.MisbehaviourMutations).Draw(t, "mbmut")
					signers := names
					if mut == "below-trust-level" || rapid.IntRange(0, 4).Draw(t, "subset") == 0 {
						signers = names[:rapid.IntRange(1, len(names)).Draw(t, "nsigners")]
					}
					other := "07-tendermint-99"
					if mut == "other-consumer-chain-id" {
						other = "otherchain-1"
					}
					return world.Action{Kind: world.KMisbehaviour, Sender: sender, Consumer: id, Ev: &world.EvidenceSpec{Mutation: mut, Signers: signers, OtherChain: other, Height: int64(rapid.IntRange(1, 9).Draw(t, "mbh"))}}
				}
			}
		}
		// double voting: choose the key: a validator's current key on that consumer, an old one, its provider key, or an unknown key
		var keys []string
		for _, v := range w.ValOrder {
			if w.Vals[v].ProvKey != "" {
				keys = append(keys, w.Vals[v].ProvKey)
			}
		}
		for i := 0; i < keyOpts.KeyPool; i++ {
			keys = append(keys, fmt.Sprintf("k%d", i))
		}
		_ = co
		key := rapid.SampledFrom(keys).Draw(t, "evkey")
		if resolvesToSafe(w, id, key) {
			// soundness precondition: the safe validator is never punished (the provider set must not become empty)
			return world.Action{Kind: world.KBlock, Dt: 1e9}
		}
		mut := ""
		if rapid.IntRange(0, 9).Draw(t, "mutate?") < 6 {
			mut = rapid.SampledFrom(world.DoubleVoteMutations[1:]).Draw(t, "dvmut")
		}
		h := int64(rapid.SampledFrom([]int{1, 3, 10, 100}).Draw(t, "evh"))
		if mut == "below-min-height" {
			h = 1
		}
		return world.Action{Kind: world.KDoubleVote, Sender: sender, Consumer: id, Ev: &world.EvidenceSpec{KeyName: key, Mutation: mut, Height: h, OtherChain: "provider"}}
	}
	if rapid.IntRange(0, 9).Draw(t, "stakelayout") < 2 {
		if a, ok := w.GenStaking(t, w.ObserveVals()); ok {
			return a
		}
	}
	a := keyStep(t, w)
	if a.Kind == world.KCreateConsumer && a.Spec != nil {
		if a.Spec.Init != nil {
			a.Spec.Init.RevHeight = uint64(rapid.SampledFrom([]int{1, 1, 5, 50}).Draw(t, "revh"))
		}
		if rapid.Bool().Draw(t, "withinfra") {
			a.Spec.Infraction = genInfraction(t)
		}
	}
	return a
}

var defC07 = register(&PropDef{
	ID:      "C07",
	Config:  keyConfig,
	Step:    evidenceStep,
	Monitor: func(w *world.World) oracle.Monitor { return oracle.NewC07(w) },
	Finish:  finishWithBlocks(2),
})

func TestC07(t *testing.T) { runProp(t, defC07) }

func resolvesToSafe(w *world.World, consumer, keyName string) bool {
	addr := w.Keys.Get(keyName).Addr()
	got := w.P.PApp.ProviderKeeper.GetProviderAddrFromConsumerAddr(w.P.Ctx(), consumer, providertypes.NewConsumerConsAddress(addr))
	return got.ToSdkConsAddr().Equals(w.ConsAddrOf(world.SafeVal))
}
