package props

import (
	"testing"

	"verif/harness/oracle"
	"verif/harness/world"
)

var defC12 = register(&PropDef{
	ID:      "C12",
	Config:  fConfig(6),
	Init:    fInit,
	Step:    fStep(FProfile{MaxConsumers: 2, AbsentC: 45, Raw: true, Weights: map[string]int{"raw": 3, "cblock": 16}}),
	Monitor: func(w *world.World) oracle.Monitor { return oracle.NewC12(w) },
	Finish:  finishF,
})

func TestC12(t *testing.T) { runProp(t, defC12) }
