package props

import (
	"fmt"
	"testing"
	"time"

	"pgregory.net/rapid"

	"verif/harness/oracle"
	"verif/harness/world"
)

var isoOpts = world.ConsumerGenOpts{ChainIDs: []string{"consa-1", "cons-c"}, MaxConsumers: 14, AllowTopN: true, KeyPool: 8, StrangerProb: 3}

// isolationStep: at least 12 consumers (ids 1, 10, 11, 2, ... coexist) in all phases, then every
// per-consumer operation, deletions and failing launches.
func isolationStep(t *rapid.T, w *world.World) world.Action {
	ncons := len(w.ConsumerIDs())
	if ncons < 12 {
		acc := w.FreeAccount(t, []string{"alice", "bob", "carol"})
		if acc != "" {
			n := rapid.IntRange(4, 7).Draw(t, "bulkn")
			var sub []world.Action
			for i := 0; i < n; i++ {
				spec := &world.ConsumerSpec{ChainID: "cons-c", Metadata: fmt.Sprint(i)}
				if rapid.IntRange(0, 4).Draw(t, "withinit") > 0 {
					spec.Init = &world.InitSpec{SpawnTime: w.P.Time.UnixNano() + int64(rapid.IntRange(2, 60).Draw(t, "spawnoff"))*int64(time.Second), RevHeight: 1, UnbondingSec: 100}
				} else {
					spec.Init = &world.InitSpec{RevHeight: 1, UnbondingSec: 100}
				}
				if rapid.Bool().Draw(t, "withshaping") {
					spec.Shaping = w.GenShaping(t, false)
				}
				sub = append(sub, world.Action{Kind: world.KCreateConsumer, Spec: spec})
			}
			return world.Action{Kind: world.KMulti, Sender: acc, Sub: sub}
		}
		return w.GenBlock(t, 0)
	}
	weights := map[string]int{"block": 10, "update": 8, "vmsg": 12, "remove": 4, "push": 6, "bulk-optin": 3, "infra": 5, "bulk-infra": 3, "staking": 1}
	switch world.Weighted(t, "kind", weights) {
	case "update":
		if a, ok := w.GenUpdateConsumer(t, isoOpts); ok {
			return a
		}
	case "remove":
		if a, ok := w.GenRemoveConsumer(t, isoOpts); ok {
			return a
		}
	case "vmsg":
		if a, ok := w.GenValidatorMsg(t, isoOpts); ok {
			return a
		}
	case "push":
		if a, ok := w.GenPushToLaunch(t, isoOpts); ok {
			return a
		}
	case "bulk-optin":
		v := w.FreeAccount(t, w.ValOrder)
		if v != "" {
			var sub []world.Action
			for _, id := range w.ConsumersInPhase(world.PhReg, world.PhInit, world.PhLaunched) {
				if rapid.Bool().Draw(t, "optthis") {
					s := world.Action{Kind: world.KOptIn, Val: v, Consumer: id}
					sub = append(sub, s)
				}
			}
			if len(sub) > 0 {
				return world.Action{Kind: world.KMulti, Sender: v, Sub: sub}
			}
		}
	case "bulk-infra":
		// one owner changes the infraction parameters of all its launched consumers in one tx: same due time
		byOwner := map[string][]string{}
		for _, id := range w.ConsumersInPhase(world.PhLaunched) {
			o := w.OwnerName(w.ObserveConsumer(id).Owner)
			if o != "" && o != "gov" {
				byOwner[o] = append(byOwner[o], id)
			}
		}
		for _, o := range []string{"alice", "bob", "carol"} {
			if len(byOwner[o]) >= 2 && !w.Busy(o) {
				var sub []world.Action
				for _, id := range byOwner[o] {
					sub = append(sub, world.Action{Kind: world.KUpdateConsumer, Consumer: id, Spec: &world.ConsumerSpec{Infraction: genInfraction(t)}})
				}
				return world.Action{Kind: world.KMulti, Sender: o, Sub: sub}
			}
		}
	case "infra":
		ids := w.ConsumersInPhase(world.PhReg, world.PhInit, world.PhLaunched)
		if len(ids) > 0 {
			id := rapid.SampledFrom(ids).Draw(t, "cid")
			owner := w.OwnerName(w.ObserveConsumer(id).Owner)
			if owner != "" && owner != "gov" && !w.Busy(owner) {
				return world.Action{Kind: world.KUpdateConsumer, Sender: owner, Consumer: id, Spec: &world.ConsumerSpec{Infraction: genInfraction(t)}}
			}
		}
	case "staking":
		if a, ok := w.GenStaking(t, w.ObserveVals()); ok {
			return a
		}
	}
	return w.GenBlock(t, 0)
}

var defC13 = register(&PropDef{
	ID: "C13",
	Config: func(t *rapid.T) world.Config {
		cfg := world.GenConfig(t, world.CfgOpts{MinVals: 3, MaxVals: 5, SmallM: false, Spare: 1})
		cfg.Provider.UnbondingTime = time.Duration(rapid.SampledFrom([]int64{20e9, 60e9, 300e9}).Draw(t, "ubshort"))
		return cfg
	},
	Step:    isolationStep,
	Monitor: func(w *world.World) oracle.Monitor { return oracle.NewC13(w) },
	Finish:  finishWithBlocks(2),
})

func TestC13(t *testing.T) { runProp(t, defC13) }
