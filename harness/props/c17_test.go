package props

import (
	"fmt"
	"testing"

	"pgregory.net/rapid"

	"verif/harness/oracle"
	"verif/harness/world"
)

func genProbe(t *rapid.T, w *world.World) world.Action {
	f := w.F()
	side := "provider"
	if len(f.Order) > 0 && rapid.IntRange(0, 2).Draw(t, "pside") == 0 {
		side = rapid.SampledFrom(f.Order).Draw(t, "pcons")
	}
	// connection ids that exist on that side, plus unknown ones
	var conns []string
	if side == "provider" {
		for _, c := range w.P.App.GetIBCKeeper().ConnectionKeeper.GetAllConnections(w.P.Ctx()) {
			conns = append(conns, c.Id)
		}
	} else if c := w.Consumer(side); c != nil {
		for _, cn := range c.App.GetIBCKeeper().ConnectionKeeper.GetAllConnections(c.Ctx()) {
			conns = append(conns, cn.Id)
		}
	}
	conns = append(conns, "connection-99")
	hops := []string{rapid.SampledFrom(conns).Draw(t, "phop")}
	if rapid.IntRange(0, 9).Draw(t, "twohops") == 0 {
		hops = append(hops, rapid.SampledFrom(conns).Draw(t, "phop2"))
	}
	pick := func(label, good string, bad ...string) string {
		if rapid.IntRange(0, 9).Draw(t, label+"?") < 7 {
			return good
		}
		return rapid.SampledFrom(bad).Draw(t, label)
	}
	pr := &world.ProbeSpec{Side: side, Hops: hops}
	pr.Order = pick("order", "ordered", "unordered", "none")
	pr.Version = pick("version", "1", "2", "", "ics20-1")
	if side == "provider" {
		pr.Callback = pick("cb", "try", "init", "ack")
		pr.Port = pick("port", "provider", "consumer", "transfer")
		pr.CpPort = pick("cpport", "consumer", "provider", "transfer")
	} else {
		pr.Callback = pick("cb", "init", "try")
		pr.Port = pick("port", "consumer", "provider", "transfer")
		pr.CpPort = pick("cpport", "provider", "consumer", "transfer")
	}
	return world.Action{Kind: world.KProbe, Probe: pr}
}

// bindingStep: real handshakes for several consumers, consumers that name an existing connection or chain id,
// second handshakes after establishment, and callback probes at arbitrary moments.
func bindingStep() func(t *rapid.T, w *world.World) world.Action {
	base := fStep(FProfile{MaxConsumers: 3, Weights: map[string]int{"relay": 20, "staking": 3, "vmsg": 3, "remove": 1}})
	return func(t *rapid.T, w *world.World) world.Action {
		if len(w.Agenda) == 0 {
			switch rapid.IntRange(0, 99).Draw(t, "bind?") / 4 {
			case 0, 1, 2:
				return genProbe(t, w)
			case 4, 5:
				// concurrent CCV handshakes with one consumer: several channels are opened from the consumer side and
				// their steps are interleaved freely (the provider may complete at most one of them)
				f := w.F()
				if len(f.Order) > 0 {
					id := rapid.SampledFrom(f.Order).Draw(t, "racechain")
					if rapid.IntRange(0, 3).Draw(t, "racemacro") == 0 {
						r := func(arg string, k int) world.Action {
							return world.Action{Kind: world.KRelay, Consumer: id, Relay: &world.RelaySpec{Op: "race", Arg: arg, K: k}}
						}
						pb := world.Action{Kind: world.KBlock, Dt: 2e9}
						cb := world.Action{Kind: world.KBlock, Chain: id, Dt: 2e9}
						w.Agenda = append(w.Agenda, r("init", 0), cb, cb, r("", 0), r("", 1), pb, pb, r("", 0), r("", 1), cb, cb, r("", 0), r("", 1), pb, pb)
						return r("init", 0)
					}
					arg := ""
					if rapid.IntRange(0, 3).Draw(t, "raceinit") == 0 {
						arg = "init"
					}
					return world.Action{Kind: world.KRelay, Consumer: id, Relay: &world.RelaySpec{Op: "race", Arg: arg, K: rapid.IntRange(0, 3).Draw(t, "racek")}}
				}
			case 3:
				// a new consumer that names a connection already existing on the provider (and its chain id)
				conns := w.P.App.GetIBCKeeper().ConnectionKeeper.GetAllConnections(w.P.Ctx())
				acc := w.FreeAccount(t, []string{"alice", "bob", "carol"})
				if len(conns) > 0 && acc != "" && len(w.ConsumerIDs()) < 5 {
					conn := rapid.SampledFrom(conns).Draw(t, "reuseconn")
					chainID := "cons-c"
					if cs, ok := w.P.App.GetIBCKeeper().ClientKeeper.GetClientState(w.P.Ctx(), conn.ClientId); ok {
						if tm, ok := cs.(interface{ GetChainID() string }); ok {
							chainID = tm.GetChainID()
						} else {
							chainID = fmt.Sprint(world.ChainIDOfClient(cs))
						}
					}
					spawn := w.Now.UnixNano() + int64(rapid.IntRange(10, 16).Draw(t, "rspawn"))*1e9
					newID := fmt.Sprint(len(w.ConsumerIDs()))
					w.Agenda = append(w.Agenda, world.Action{Kind: world.KBlock, Dt: 2e9})
					for i := 0; i < 2 && i < len(w.ValOrder); i++ {
						v := w.ValOrder[i]
						w.Agenda = append(w.Agenda, world.Action{Kind: world.KOptIn, Sender: v, Val: v, Consumer: newID})
					}
					for i := 0; i < 5; i++ {
						w.Agenda = append(w.Agenda, world.Action{Kind: world.KBlock, Dt: 4e9})
					}
					w.Label("consumer-on-existing-connection")
					// sometimes the consumer currently bound to that connection's client is stopped first: it keeps its
					// bindings until it is deleted, and the newcomer reaches its spawn time inside that window
					if rapid.IntRange(0, 2).Draw(t, "stopfirst") == 0 {
						for _, id := range w.ConsumersInPhase(world.PhLaunched) {
							if cl, ok := w.P.PApp.ProviderKeeper.GetConsumerClientId(w.P.Ctx(), id); ok && cl == conn.ClientId {
								if owner := w.OwnerName(w.ObserveConsumer(id).Owner); owner != "" && owner != "gov" && owner != acc && !w.Busy(owner) {
									w.Label("bound-consumer-stopped-first")
									w.Agenda = append([]world.Action{{Kind: world.KRemoveConsumer, Sender: owner, Consumer: id}}, w.Agenda...)
								}
								break
							}
						}
					}
					return world.Action{Kind: world.KCreateConsumer, Sender: acc, Spec: &world.ConsumerSpec{ChainID: chainID, Metadata: "r",
						Init: &world.InitSpec{SpawnTime: spawn, RevNumber: world.RevOf(chainID), RevHeight: 1, UnbondingSec: 1000, ConnectionID: conn.Id}}}
				}
			}
		}
		return base(t, w)
	}
}

var defC17 = register(&PropDef{
	ID:      "C17",
	Config:  fConfig(5),
	Init:    fInit,
	Step:    bindingStep(),
	Monitor: func(w *world.World) oracle.Monitor { return oracle.NewC17(w) },
	Finish:  finishF,
})

func TestC17(t *testing.T) { runProp(t, defC17) }
