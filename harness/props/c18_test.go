package props

import (
	"os"
	"testing"

	"pgregory.net/rapid"

	"verif/harness/oracle"
	"verif/harness/world"
)

func replicaCount() int {
	if os.Getenv("VERIF_TIER") == "thorough" {
		return 3
	}
	return 2
}

// equal-power configurations with many validators: maps and sorts have ties
func tieConfig(min, max int) func(t *rapid.T) world.Config {
	return func(t *rapid.T) world.Config {
		cfg := world.GenConfig(t, world.CfgOpts{MinVals: min, MaxVals: max, SmallM: true, Spare: 2})
		if rapid.IntRange(0, 3).Draw(t, "equalize") > 0 {
			for i := range cfg.Provider.Validators {
				cfg.Provider.Validators[i].Tokens = 3_000_000 + int64(i%2)
			}
		}
		return cfg
	}
}

var defC18 = register(&PropDef{
	ID:      "C18",
	Config:  tieConfig(6, 14),
	Step:    shapingStep,
	Monitor: func(w *world.World) oracle.Monitor { return oracle.NewC18(w, replicaCount()) },
	Finish:  finishWithBlocks(2),
})

func TestC18(t *testing.T) { runProp(t, defC18) }

var defC18F = register(&PropDef{
	ID:      "C18f",
	Config:  tieConfig(4, 8),
	Init:    slashInit(10e9),
	Step:    fStep(FProfile{MaxConsumers: 3, AbsentC: 30, Raw: true, Weights: map[string]int{"raw": 2, "fee": 2}}),
	Monitor: func(w *world.World) oracle.Monitor { return oracle.NewC18(w, replicaCount()) },
	Finish:  finishF,
})

func TestC18F(t *testing.T) { runProp(t, defC18F) }
