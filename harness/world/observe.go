package world

import (
	"bytes"
	"fmt"
	"sort"

	"cosmossdk.io/math"
	storetypes "cosmossdk.io/store/types"

	sdk "github.com/cosmos/cosmos-sdk/types"
	stakingtypes "github.com/cosmos/cosmos-sdk/x/staking/types"

	tmprotocrypto "github.com/cometbft/cometbft/proto/tendermint/crypto"

	providertypes "github.com/cosmos/interchain-security/v7/x/ccv/provider/types"
	ccvtypes "github.com/cosmos/interchain-security/v7/x/ccv/types"
)

// ValObs is the staking/slashing view of one validator.
type ValObs struct {
	Name        string
	Exists      bool
	Operator    string
	Status      stakingtypes.BondStatus
	Jailed      bool
	Tokens      math.Int
	LastPower   int64 // staking's last validator power (0 if not in the last bonded set)
	ConsAddr    sdk.ConsAddress
	PubKeyHex   string // provider consensus key, hex upper
	Tombstoned  bool
	JailedUntil int64 // unix nanos
}

// ObserveVals reads every validator the harness knows about from x/staking and x/slashing.
func (w *World) ObserveVals() map[string]ValObs {
	ctx := w.P.Ctx()
	sk := w.P.PApp.StakingKeeper
	out := map[string]ValObs{}
	for _, name := range w.ValOrder {
		vi := w.Vals[name]
		o := ValObs{Name: name, Operator: vi.Acc.ValAddr().String()}
		v, err := sk.GetValidator(ctx, vi.Acc.ValAddr())
		if err == nil {
			o.Exists = true
			o.Status = v.Status
			o.Jailed = v.Jailed
			o.Tokens = v.Tokens
			ca, _ := v.GetConsAddr()
			o.ConsAddr = ca
			if pk, err := v.CmtConsPublicKey(); err == nil {
				o.PubKeyHex = fmt.Sprintf("%X", pk.GetEd25519())
			}
			if p, err := sk.GetLastValidatorPower(ctx, vi.Acc.ValAddr()); err == nil {
				o.LastPower = p
			}
			if si, err := w.P.PApp.SlashingKeeper.GetValidatorSigningInfo(ctx, ca); err == nil {
				o.Tombstoned = si.Tombstoned
				o.JailedUntil = si.JailedUntil.UnixNano()
			}
		}
		out[name] = o
	}
	return out
}

// NameByConsAddr maps provider consensus addresses (hex upper) to validator names.
func (w *World) NameByConsAddr() map[string]string {
	m := map[string]string{}
	for _, name := range w.ValOrder {
		vi := w.Vals[name]
		if vi.ProvKey != "" {
			m[fmt.Sprintf("%X", []byte(w.Keys.Get(vi.ProvKey).Addr()))] = name
		}
	}
	return m
}

// CV is a consensus validator in comparable form.
type CV struct {
	ProvAddr   string // hex upper
	PubKey     string // hex upper
	Power      int64
	JoinHeight int64
}

func ToCVs(in []providertypes.ConsensusValidator) []CV {
	out := make([]CV, 0, len(in))
	for _, v := range in {
		pk := ""
		if v.PublicKey != nil {
			pk = fmt.Sprintf("%X", v.PublicKey.GetEd25519())
		}
		out = append(out, CV{ProvAddr: fmt.Sprintf("%X", v.ProviderConsAddr), PubKey: pk, Power: v.Power, JoinHeight: v.JoinHeight})
	}
	sort.Slice(out, func(i, j int) bool { return out[i].ProvAddr < out[j].ProvAddr })
	return out
}

// ProviderRecordedSet returns the validator set the provider recorded as handed to its consensus engine.
func (w *World) ProviderRecordedSet() []CV {
	vs, err := w.P.PApp.ProviderKeeper.GetLastProviderConsensusValSet(w.P.Ctx())
	if err != nil {
		panic(fmt.Sprintf("GetLastProviderConsensusValSet: %v", err))
	}
	return ToCVs(vs)
}

// ConsumerRecordedSet returns the stored validator set of a consumer.
func (w *World) ConsumerRecordedSet(id string) []CV {
	vs, err := w.P.PApp.ProviderKeeper.GetConsumerValSet(w.P.Ctx(), id)
	if err != nil {
		panic(fmt.Sprintf("GetConsumerValSet: %v", err))
	}
	return ToCVs(vs)
}

// KV is a raw store entry.
type KV struct {
	K []byte
	V []byte
}

// DumpStore returns all entries of a provider-app KV store, in key order.
func (w *World) DumpStore(storeKey string) []KV {
	key := w.P.PApp.GetKey(storeKey)
	if key == nil {
		panic("unknown store key " + storeKey)
	}
	st := w.P.Ctx().KVStore(key)
	it := storetypes.KVStorePrefixIterator(st, nil)
	defer it.Close()
	var out []KV
	for ; it.Valid(); it.Next() {
		out = append(out, KV{K: append([]byte{}, it.Key()...), V: append([]byte{}, it.Value()...)})
	}
	return out
}

// DiffStores returns the keys that differ between two dumps (both sorted by key).
func DiffStores(a, b []KV) (changed [][]byte) {
	i, j := 0, 0
	for i < len(a) || j < len(b) {
		switch {
		case i >= len(a):
			changed = append(changed, b[j].K)
			j++
		case j >= len(b):
			changed = append(changed, a[i].K)
			i++
		default:
			c := bytes.Compare(a[i].K, b[j].K)
			if c == 0 {
				if !bytes.Equal(a[i].V, b[j].V) {
					changed = append(changed, a[i].K)
				}
				i++
				j++
			} else if c < 0 {
				changed = append(changed, a[i].K)
				i++
			} else {
				changed = append(changed, b[j].K)
				j++
			}
		}
	}
	return changed
}

// ConsAddrOfProtoKey returns the consensus address (hex upper) of a protobuf public key.
func ConsAddrOfProtoKey(pk *tmprotocrypto.PublicKey) (string, error) {
	if pk == nil {
		return "", fmt.Errorf("nil key")
	}
	ca, err := ccvtypes.TMCryptoPublicKeyToConsAddr(*pk)
	if err != nil {
		return "", err
	}
	return fmt.Sprintf("%X", []byte(ca)), nil
}

// KeyNameByAddr returns the harness name of the key with this consensus address ("" if the harness never
// created it).
func (w *World) KeyNameByAddr(addrHex string) string {
	return w.Keys.NameByAddr(addrHex)
}
