package world

// Injector is the state of the fault injector (see fault.go, build tag verif).
type Injector struct {
	Armed  bool
	Record bool
	Site   string
	Nth    int
	Counts map[string]int // calls per site in the current block
	Hit    string         // the site whose call was failed in the current block ("" if none)
}
