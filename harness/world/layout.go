package world

import (
	"encoding/binary"
	"fmt"
	"sort"
	"time"

	sdk "github.com/cosmos/cosmos-sdk/types"

	providertypes "github.com/cosmos/interchain-security/v7/x/ccv/provider/types"

	"verif/harness/sim"
)

// Independent table of the provider store layout (DESIGN.md appendix A). Every key is attributed to one
// consumer id, to "global", or (time queues) to the ids listed in its value.

const (
	layoutGlobal = iota
	layoutLegacyID
	layoutIDByValue
	layoutLenID
	layoutQueue
	layoutDeprecated
)

var layoutTable = map[byte]int{
	0xFF: layoutGlobal, 0: layoutGlobal, 2: layoutGlobal, 3: layoutGlobal, 4: layoutGlobal, 13: layoutGlobal,
	26: layoutGlobal, 27: layoutGlobal, 42: layoutGlobal, 43: layoutGlobal,
	5: layoutLegacyID, 7: layoutLegacyID, 14: layoutLegacyID, 15: layoutLegacyID, 16: layoutLegacyID, 17: layoutLegacyID, 29: layoutLegacyID,
	6: layoutIDByValue, 53: layoutIDByValue,
	22: layoutLenID, 23: layoutLenID, 31: layoutLenID, 32: layoutLenID, 36: layoutLenID, 37: layoutLenID, 39: layoutLenID, 56: layoutLenID,
	41: layoutLenID, 40: layoutLenID, 44: layoutLenID, 45: layoutLenID, 46: layoutLenID, 47: layoutLenID, 48: layoutLenID, 49: layoutLenID,
	50: layoutLenID, 54: layoutLenID, 55: layoutLenID, 57: layoutLenID, 58: layoutLenID,
	51: layoutQueue, 52: layoutQueue, 59: layoutQueue,
	1: layoutDeprecated, 8: layoutDeprecated, 9: layoutDeprecated, 10: layoutDeprecated, 11: layoutDeprecated, 12: layoutDeprecated,
	18: layoutDeprecated, 19: layoutDeprecated, 20: layoutDeprecated, 21: layoutDeprecated, 24: layoutDeprecated, 25: layoutDeprecated,
	28: layoutDeprecated, 30: layoutDeprecated, 33: layoutDeprecated, 34: layoutDeprecated, 35: layoutDeprecated, 38: layoutDeprecated,
}

// CheckLayoutTable cross-checks the table with the prefixes the code declares; an added prefix makes the
// decoder blind, which must stop the check (harness error), not pass silently.
func CheckLayoutTable() {
	for _, p := range providertypes.GetAllKeyPrefixes() {
		if _, ok := layoutTable[p]; !ok {
			panic(sim.HarnessError{Msg: fmt.Sprintf("provider store prefix %d is not in the harness layout table", p)})
		}
	}
}

// Entry is a decoded provider-store entry.
type Entry struct {
	Prefix byte
	Owner  string   // consumer id, or "" for global
	Global bool
	Queue  bool
	IDs    []string // queue entries: the listed ids
	Time   time.Time
	KV
}

// Decode attributes a raw entry.
func Decode(kv KV) Entry {
	if len(kv.K) == 0 {
		panic(sim.HarnessError{Msg: "empty key in provider store"})
	}
	p := kv.K[0]
	kind, ok := layoutTable[p]
	if !ok {
		panic(sim.HarnessError{Msg: fmt.Sprintf("unknown provider store prefix %d", p)})
	}
	e := Entry{Prefix: p, KV: kv}
	switch kind {
	case layoutGlobal:
		e.Global = true
	case layoutDeprecated:
		panic(sim.HarnessError{Msg: fmt.Sprintf("deprecated provider store prefix %d in use", p)})
	case layoutLegacyID:
		e.Owner = string(kv.K[1:])
	case layoutIDByValue:
		e.Owner = string(kv.V)
	case layoutLenID:
		if len(kv.K) < 9 {
			panic(sim.HarnessError{Msg: fmt.Sprintf("short key under prefix %d", p)})
		}
		l := binary.BigEndian.Uint64(kv.K[1:9])
		if uint64(len(kv.K)) < 9+l {
			panic(sim.HarnessError{Msg: fmt.Sprintf("bad id length under prefix %d", p)})
		}
		e.Owner = string(kv.K[9 : 9+l])
	case layoutQueue:
		e.Queue = true
		ts, err := sdk.ParseTimeBytes(kv.K[1:])
		if err != nil {
			panic(sim.HarnessError{Msg: fmt.Sprintf("bad time key under prefix %d: %v", p, err)})
		}
		e.Time = ts
		var ids providertypes.ConsumerIds
		if err := ids.Unmarshal(kv.V); err != nil {
			panic(sim.HarnessError{Msg: fmt.Sprintf("bad id list under prefix %d: %v", p, err)})
		}
		e.IDs = ids.Ids
	}
	return e
}

// QueueItem is one (time, id) pair of a time queue, in queue order.
type QueueItem struct {
	Time time.Time
	ID   string
}

// ReadQueue returns the contents of a time queue (51 spawn, 52 removal, 59 infraction updates) in order.
func (w *World) ReadQueue(prefix byte) []QueueItem {
	var out []QueueItem
	for _, kv := range w.DumpStore(providertypes.StoreKey) {
		if kv.K[0] != prefix {
			continue
		}
		e := Decode(kv)
		for _, id := range e.IDs {
			out = append(out, QueueItem{Time: e.Time, ID: id})
		}
	}
	return out
}

// Footprint is the raw provider-store state attributed to one consumer: key -> value for owned keys, and
// for queues "q<prefix>/<time>#<occurrence index>" markers.
func Footprints(dump []KV) (perConsumer map[string]map[string]string, global map[string]string) {
	perConsumer = map[string]map[string]string{}
	global = map[string]string{}
	add := func(id, k, v string) {
		if perConsumer[id] == nil {
			perConsumer[id] = map[string]string{}
		}
		perConsumer[id][k] = v
	}
	for _, kv := range dump {
		e := Decode(kv)
		switch {
		case e.Global:
			global[string(kv.K)] = string(kv.V)
		case e.Queue:
			count := map[string]int{}
			for _, id := range e.IDs {
				add(id, fmt.Sprintf("q%d/%s#%d", e.Prefix, e.Time.UTC().Format(time.RFC3339Nano), count[id]), "listed")
				count[id]++
			}
		default:
			add(e.Owner, string(kv.K), string(kv.V))
		}
	}
	return perConsumer, global
}

// DiffFootprint returns the keys that differ between two footprints (sorted, printable).
func DiffFootprint(a, b map[string]string) []string {
	var out []string
	for k, v := range a {
		if bv, ok := b[k]; !ok || bv != v {
			out = append(out, printableKey(k))
		}
	}
	for k := range b {
		if _, ok := a[k]; !ok {
			out = append(out, printableKey(k))
		}
	}
	sort.Strings(out)
	return out
}

func printableKey(k string) string {
	if len(k) > 0 && k[0] == 'q' {
		return k
	}
	if len(k) == 0 {
		return "<empty>"
	}
	return fmt.Sprintf("prefix%d:%X", k[0], k[1:])
}
