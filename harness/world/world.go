package world

import (
	"fmt"
	"sort"
	"strings"
	"time"

	abci "github.com/cometbft/cometbft/abci/types"

	"cosmossdk.io/math"

	codectypes "github.com/cosmos/cosmos-sdk/codec/types"
	sdk "github.com/cosmos/cosmos-sdk/types"
	slashingtypes "github.com/cosmos/cosmos-sdk/x/slashing/types"
	stakingtypes "github.com/cosmos/cosmos-sdk/x/staking/types"

	clienttypes "github.com/cosmos/ibc-go/v10/modules/core/02-client/types"

	providertypes "github.com/cosmos/interchain-security/v7/x/ccv/provider/types"

	"verif/harness/sim"
)

// Config determines a world completely (together with the action trace).
type Config struct {
	Provider  sim.ProviderConfig `json:"provider"`
	SpareAccs int                `json:"spare_accs"` // accounts n0..n{k-1} that may create validators later
}

// TxOutcome is the result of one queued tx.
type TxOutcome struct {
	Action *Action
	Idx    int // index in the trace
	Code   uint32
	Log    string
	Events []abci.Event
	Data   []byte
}

func (t *TxOutcome) OK() bool { return t.Code == 0 }

// StepResult is what applying one action produced.
type StepResult struct {
	Skipped  string           // non-empty: the action was not applicable and nothing happened
	Block    *sim.BlockResult // block actions
	Txs      []*TxOutcome     // block actions: outcomes of the txs included
	Gov      []*GovOutcome    // block actions: "gov" actions that reached a final state in this block
	Chain    string
}

type queuedTx struct {
	idx int // trace index, -1 for automatic txs (votes)
	acc string
	gov bool
}

// ValInfo is what the harness knows about a (possible) validator.
type ValInfo struct {
	Name    string
	Acc     *sim.Account
	ProvKey string // key name of its provider consensus key ("" until created)
}

// World is one provider (and, in the F-world, its consumer chains) plus the recording.
type World struct {
	Cfg   Config
	Keys  *sim.KeyStore
	P     *sim.Provider
	Trace []Action

	Vals     map[string]*ValInfo // all validators known to the harness (genesis + created)
	ValOrder []string

	queued    []queuedTx
	busy      map[string]bool
	pendingDS []abci.Misbehavior
	cqueued   map[string][]queuedTx       // per consumer chain
	cbusy     map[string]map[string]bool // per consumer chain

	// Now is the global clock: every block of any chain advances it and takes it as its block time, so the
	// chains' clocks are monotone and never ahead of each other's next block (light-client clock drift).
	Now time.Time

	Labels map[string]int

	// NextConsumer is the id the provider will hand out next according to the recording of create results.
	Created []string // consumer ids observed from successful create txs, in order

	Proposals []*Proposal

	Ext interface{} // F-world extension

	// Inj is the fault injector (nil unless installed); LastFault is the site failed in the last provider block.
	Inj       *Injector
	LastFault string

	// LastRecv lists the packets received (acknowledgement written) in the last produced block, in execution order.
	LastRecv []*PacketRec

	// Agenda holds follow-up actions a generator scheduled (macros such as "run the handshake"); generators pop
	// from it before drawing anything new. It is derived from drawn values only, so traces stay reproducible.
	Agenda []Action
}

func New(cfg Config) *World {
	w := &World{Cfg: cfg, Keys: sim.NewKeyStore(), Vals: map[string]*ValInfo{}, busy: map[string]bool{}, Labels: map[string]int{},
		cqueued: map[string][]queuedTx{}, cbusy: map[string]map[string]bool{}, Now: sim.GenesisTime}
	pc := cfg.Provider
	pc.Users = append(pc.Users, GovProposer)
	pc.Users = append(pc.Users, relayerNames()...)
	for i := 0; i < cfg.SpareAccs; i++ {
		pc.Users = append(pc.Users, fmt.Sprintf("n%d", i))
	}
	w.P = sim.NewProvider(pc, w.Keys)
	for _, vs := range cfg.Provider.Validators {
		w.Vals[vs.Name] = &ValInfo{Name: vs.Name, Acc: w.P.Accounts[vs.Name], ProvKey: sim.ConsKeyName(vs.Name)}
		w.ValOrder = append(w.ValOrder, vs.Name)
	}
	return w
}

func (w *World) Label(l string) { w.Labels[l]++ }

// ValAddr returns the operator address of the validator name (the account with the same name).
func (w *World) ValAddr(name string) sdk.ValAddress {
	if a, ok := w.P.Accounts[name]; ok {
		return a.ValAddr()
	}
	return sim.NewAccount(name).ValAddr()
}

// ConsAddrOf returns the provider consensus address of a validator name, or of a raw key "x:<key>".
func (w *World) ConsAddrOf(name string) sdk.ConsAddress {
	if strings.HasPrefix(name, "x:") {
		return w.Keys.Get(name[2:]).Addr()
	}
	if v, ok := w.Vals[name]; ok && v.ProvKey != "" {
		return w.Keys.Get(v.ProvKey).Addr()
	}
	return w.Keys.Get(sim.ConsKeyName(name)).Addr()
}

func (w *World) addrList(names []string) []string {
	var out []string
	for _, n := range names {
		out = append(out, w.ConsAddrOf(n).String())
	}
	return out
}

func (w *World) accAddr(name string) string {
	if name == "gov" {
		return sim.GovAddr()
	}
	if strings.HasPrefix(name, "!") {
		return name[1:]
	}
	if a, ok := w.P.Accounts[name]; ok {
		return a.Bech32()
	}
	return sim.NewAccount(name).Bech32()
}

// BuildInit converts an InitSpec to the provider type.
func BuildInit(s *InitSpec) *providertypes.ConsumerInitializationParameters {
	if s == nil {
		return nil
	}
	ip := providertypes.DefaultConsumerInitializationParameters()
	ip.InitialHeight = clienttypes.Height{RevisionNumber: s.RevNumber, RevisionHeight: s.RevHeight}
	if s.RevHeight == 0 {
		ip.InitialHeight.RevisionHeight = 1
	}
	ip.GenesisHash = []byte("gen")
	ip.BinaryHash = []byte("bin")
	if s.SpawnTime != 0 {
		ip.SpawnTime = time.Unix(0, s.SpawnTime).UTC()
	}
	if s.UnbondingSec != 0 {
		ip.UnbondingPeriod = time.Duration(s.UnbondingSec) * time.Second
	}
	if s.CcvTimeoutSec != 0 {
		ip.CcvTimeoutPeriod = time.Duration(s.CcvTimeoutSec) * time.Second
	}
	if s.Fraction != "" {
		ip.ConsumerRedistributionFraction = s.Fraction
	}
	if s.BlocksPerDistr != 0 {
		ip.BlocksPerDistributionTransmission = s.BlocksPerDistr
	}
	ip.DistributionTransmissionChannel = s.TransferChan
	ip.ConnectionId = s.ConnectionID
	return &ip
}

func (w *World) BuildShaping(s *ShapingSpec) *providertypes.PowerShapingParameters {
	if s == nil {
		return nil
	}
	return &providertypes.PowerShapingParameters{
		Top_N:              s.TopN,
		ValidatorsPowerCap: s.PowerCap,
		ValidatorSetCap:    s.SetCap,
		Allowlist:          w.addrList(s.Allow),
		Denylist:           w.addrList(s.Deny),
		Prioritylist:       w.addrList(s.Priority),
		MinStake:           s.MinStake,
		AllowInactiveVals:  s.AllowInactive,
	}
}

func BuildInfraction(s *InfractionSpec) *providertypes.InfractionParameters {
	if s == nil {
		return nil
	}
	ip := &providertypes.InfractionParameters{}
	if s.HasDS {
		ip.DoubleSign = &providertypes.SlashJailParameters{
			JailDuration:  time.Duration(s.DSJail) * time.Second,
			SlashFraction: math.LegacyMustNewDecFromStr(s.DSFrac),
			Tombstone:     s.DSTomb,
		}
	}
	if s.HasDT {
		ip.Downtime = &providertypes.SlashJailParameters{
			JailDuration:  time.Duration(s.DTJail) * time.Second,
			SlashFraction: math.LegacyMustNewDecFromStr(s.DTFrac),
		}
	}
	return ip
}

// BuildMsgs turns a tx-like action into sdk messages and the signing account name.
func (w *World) BuildMsgs(a *Action) ([]sdk.Msg, string, error) {
	sender := a.Sender
	switch a.Kind {
	case KDelegate:
		return []sdk.Msg{stakingtypes.NewMsgDelegate(w.accAddr(sender), w.ValAddr(a.Val).String(), sdk.NewCoin(sim.BondDenom, math.NewInt(a.Amount)))}, sender, nil
	case KUndelegate:
		return []sdk.Msg{stakingtypes.NewMsgUndelegate(w.accAddr(sender), w.ValAddr(a.Val).String(), sdk.NewCoin(sim.BondDenom, math.NewInt(a.Amount)))}, sender, nil
	case KRedelegate:
		return []sdk.Msg{stakingtypes.NewMsgBeginRedelegate(w.accAddr(sender), w.ValAddr(a.Val).String(), w.ValAddr(a.Val2).String(), sdk.NewCoin(sim.BondDenom, math.NewInt(a.Amount)))}, sender, nil
	case KCreateValidator:
		ck := w.Keys.Get(a.Key)
		pkAny, err := codectypes.NewAnyWithValue(ck.SDKPubKey())
		if err != nil {
			return nil, "", err
		}
		msg := &stakingtypes.MsgCreateValidator{
			Description:       stakingtypes.Description{Moniker: sender},
			Commission:        stakingtypes.NewCommissionRates(math.LegacyNewDecWithPrec(1, 1), math.LegacyNewDecWithPrec(5, 1), math.LegacyNewDecWithPrec(1, 1)),
			MinSelfDelegation: math.OneInt(),
			ValidatorAddress:  w.ValAddr(sender).String(),
			Pubkey:            pkAny,
			Value:             sdk.NewCoin(sim.BondDenom, math.NewInt(a.Amount)),
		}
		return []sdk.Msg{msg}, sender, nil
	case KUnjail:
		return []sdk.Msg{slashingtypes.NewMsgUnjail(w.ValAddr(a.Val).String())}, a.Val, nil
	case KCreateConsumer:
		s := a.Spec
		md := providertypes.ConsumerMetadata{Name: "n" + s.Metadata, Description: "d", Metadata: "m" + s.Metadata}
		msg := &providertypes.MsgCreateConsumer{
			Submitter:                w.accAddr(sender),
			ChainId:                  s.ChainID,
			Metadata:                 md,
			InitializationParameters: BuildInit(s.Init),
			PowerShapingParameters:   w.BuildShaping(s.Shaping),
			InfractionParameters:     BuildInfraction(s.Infraction),
		}
		if s.HasRewardDenoms {
			msg.AllowlistedRewardDenoms = &providertypes.AllowlistedRewardDenoms{Denoms: s.RewardDenoms}
		}
		return []sdk.Msg{msg}, sender, nil
	case KUpdateConsumer:
		s := a.Spec
		msg := &providertypes.MsgUpdateConsumer{
			Owner:                    w.accAddr(sender),
			ConsumerId:               a.Consumer,
			InitializationParameters: BuildInit(s.Init),
			PowerShapingParameters:   w.BuildShaping(s.Shaping),
			InfractionParameters:     BuildInfraction(s.Infraction),
			NewChainId:               s.ChainID,
		}
		if s.NewOwner != "" {
			msg.NewOwnerAddress = w.accAddr(s.NewOwner)
		}
		if s.Metadata != "" {
			msg.Metadata = &providertypes.ConsumerMetadata{Name: "n" + s.Metadata, Description: "d", Metadata: "m" + s.Metadata}
		}
		if s.HasRewardDenoms {
			msg.AllowlistedRewardDenoms = &providertypes.AllowlistedRewardDenoms{Denoms: s.RewardDenoms}
		}
		return []sdk.Msg{msg}, sender, nil
	case KRemoveConsumer:
		return []sdk.Msg{&providertypes.MsgRemoveConsumer{Owner: w.accAddr(sender), ConsumerId: a.Consumer}}, sender, nil
	case KOptIn:
		key := ""
		if a.Key != "" {
			key = w.Keys.Get(a.Key).JSON()
		}
		return []sdk.Msg{&providertypes.MsgOptIn{ConsumerId: a.Consumer, ProviderAddr: w.ValAddr(a.Val).String(), ConsumerKey: key, Signer: w.accAddr(sender)}}, sender, nil
	case KOptOut:
		return []sdk.Msg{&providertypes.MsgOptOut{ConsumerId: a.Consumer, ProviderAddr: w.ValAddr(a.Val).String(), Signer: w.accAddr(sender)}}, sender, nil
	case KAssignKey:
		return []sdk.Msg{&providertypes.MsgAssignConsumerKey{ConsumerId: a.Consumer, ProviderAddr: w.ValAddr(a.Val).String(), ConsumerKey: w.Keys.Get(a.Key).JSON(), Signer: w.accAddr(sender)}}, sender, nil
	case KSetCommission:
		return []sdk.Msg{&providertypes.MsgSetConsumerCommissionRate{ConsumerId: a.Consumer, ProviderAddr: w.ValAddr(a.Val).String(), Rate: math.LegacyMustNewDecFromStr(a.Rate), Signer: w.accAddr(sender)}}, sender, nil
	case KGovProviderParm, KTxProviderParm:
		params := w.P.PApp.ProviderKeeper.GetParams(w.P.Ctx())
		if a.Params.MaxProviderVal != 0 {
			params.MaxProviderConsensusValidators = a.Params.MaxProviderVal
		}
		if a.Params.BlocksPerEpoch != 0 {
			params.BlocksPerEpoch = a.Params.BlocksPerEpoch
		}
		return []sdk.Msg{&providertypes.MsgUpdateParams{Authority: w.accAddr(sender), Params: params}}, sender, nil
	case KGovStakingParm:
		sp, err := w.P.PApp.StakingKeeper.GetParams(w.P.Ctx())
		if err != nil {
			return nil, "", err
		}
		sp.MaxValidators = a.Params.MaxValidators
		return []sdk.Msg{&stakingtypes.MsgUpdateParams{Authority: w.accAddr(sender), Params: sp}}, sender, nil
	case KGovRewardDenoms, KTxRewardDenoms:
		return []sdk.Msg{&providertypes.MsgChangeRewardDenoms{Authority: w.accAddr(sender), DenomsToAdd: a.Denoms, DenomsToRemove: a.Denoms2}}, sender, nil
	}
	if a.Kind == KMulti {
		var all []sdk.Msg
		for i := range a.Sub {
			sub := a.Sub[i]
			sub.Sender = a.Sender
			msgs, _, err := w.BuildMsgs(&sub)
			if err != nil {
				return nil, "", err
			}
			all = append(all, msgs...)
		}
		return all, sender, nil
	}
	if b, ok := extraBuilders[a.Kind]; ok {
		return b(w, a)
	}
	return nil, "", fmt.Errorf("no message builder for kind %q", a.Kind)
}

var extraBuilders = map[string]func(w *World, a *Action) ([]sdk.Msg, string, error){}

// Apply interprets one action. It never fails the test itself: harness problems panic with sim.HarnessError.
func (w *World) Apply(a Action) *StepResult {
	w.Trace = append(w.Trace, a)
	idx := len(w.Trace) - 1
	ap := &w.Trace[idx]
	switch {
	case a.Kind == KBlock && (a.Chain == "" || a.Chain == "provider"):
		return w.providerBlock(ap)
	case a.Kind == KBlock:
		return w.consumerBlock(ap)
	case a.Kind == KProviderDS:
		return w.queueProviderDoubleSign(ap)
	case a.Kind == KInject:
		if w.Inj == nil || a.Fault == nil {
			return &StepResult{Skipped: "no fault injector installed"}
		}
		w.Inj.Armed, w.Inj.Site, w.Inj.Nth = true, a.Fault.Site, a.Fault.Nth
		return &StepResult{}
	case a.Sender == "gov":
		return w.govSubmit(ap, idx)
	}
	if h, ok := extraAppliers[a.Kind]; ok {
		return h(w, ap, idx)
	}
	// provider tx
	msgs, signer, err := w.BuildMsgs(ap)
	if err != nil {
		return &StepResult{Skipped: "cannot build message: " + err.Error()}
	}
	if _, ok := w.P.Accounts[signer]; !ok {
		return &StepResult{Skipped: "unknown signer " + signer}
	}
	if w.busy[signer] {
		return &StepResult{Skipped: "signer busy"}
	}
	w.P.Chain.QueueTx(fmt.Sprintf("%d:%s", idx, a.Kind), signer, msgs...)
	w.busy[signer] = true
	w.queued = append(w.queued, queuedTx{idx: idx, acc: signer})
	return &StepResult{}
}

var extraAppliers = map[string]func(w *World, a *Action, idx int) *StepResult{}

// Busy reports whether the account already has a tx queued for the next provider block.
func (w *World) Busy(acc string) bool { return w.busy[acc] }

func (w *World) providerBlock(a *Action) *StepResult {
	if w.P.Halted {
		return &StepResult{Skipped: "provider halted"}
	}
	absent := map[string]bool{}
	for _, n := range a.Absent {
		absent[w.Keys.Get(n).Priv.PubKey().Address().String()] = true
	}
	dt := dur(a.Dt)
	if dt <= 0 {
		dt = time.Second
	}
	mis := w.pendingDS
	w.pendingDS = nil
	w.Now = w.Now.Add(dt)
	dt = w.Now.Sub(w.P.Time)
	if w.Inj != nil {
		w.Inj.Counts = map[string]int{}
		w.Inj.Hit = ""
		w.Inj.Record = true
	}
	br := w.P.ProduceBlock(dt, sim.Votes{Absent: absent}, mis)
	w.LastFault = ""
	if w.Inj != nil {
		w.LastFault = w.Inj.Hit
		w.Inj.Armed, w.Inj.Record = false, false
		if w.LastFault != "" {
			w.Label("fault:" + w.LastFault)
		}
		for site := range w.Inj.Counts {
			w.Label("site-reached:" + site)
		}
	}
	res := &StepResult{Block: br, Chain: "provider"}
	q := w.queued
	w.queued = nil
	w.busy = map[string]bool{}
	if br.Failed() {
		return res
	}
	if br.EngineHalt != "" {
		// cannot happen while the safe validator is protected; if it does, the rest of the case is void
		w.Label("provider-halted-empty-set")
	}
	if len(br.Resp.TxResults) != len(q) {
		panic(sim.HarnessError{Msg: fmt.Sprintf("tx results %d != queued %d", len(br.Resp.TxResults), len(q))})
	}
	for i, r := range br.Resp.TxResults {
		if q[i].idx < 0 {
			if r.Code != 0 {
				w.Label("vote-failed")
			}
			continue
		}
		to := &TxOutcome{Action: &w.Trace[q[i].idx], Idx: q[i].idx, Code: r.Code, Log: r.Log, Events: r.Events, Data: r.Data}
		if q[i].gov {
			w.observeSubmit(to, res)
			continue
		}
		res.Txs = append(res.Txs, to)
		w.observeTx(to)
	}
	w.closeProposals(res)
	if w.F() != nil {
		w.observePackets(nil, "", br)
		w.instantiateLaunched()
	}
	// votes for open proposals are queued first thing for the next block (the voting operators are busy for
	// that block, so generators pick other signers)
	w.queueVotes()
	return res
}

// observeTx updates the recording from a tx result.
func (w *World) observeTx(to *TxOutcome) {
	if !to.OK() {
		return
	}
	switch to.Action.Kind {
	case KCreateConsumer, KMulti:
		for _, e := range EventsOf(to.Events, providertypes.EventTypeCreateConsumer) {
			if id := Attr(e, providertypes.AttributeConsumerId); id != "" {
				w.Created = append(w.Created, id)
			}
		}
	case KCreateValidator:
		name := to.Action.Sender
		w.Vals[name] = &ValInfo{Name: name, Acc: w.P.Accounts[name], ProvKey: to.Action.Key}
		w.ValOrder = append(w.ValOrder, name)
	}
}

// EventAttr returns the first attribute value of the first event of the given type ("" if absent).
func EventAttr(evs []abci.Event, typ, key string) string {
	for _, e := range evs {
		if e.Type != typ {
			continue
		}
		for _, at := range e.Attributes {
			if at.Key == key {
				return at.Value
			}
		}
	}
	return ""
}

// EventsOf returns all events of a type.
func EventsOf(evs []abci.Event, typ string) []abci.Event {
	var out []abci.Event
	for _, e := range evs {
		if e.Type == typ {
			out = append(out, e)
		}
	}
	return out
}

func Attr(e abci.Event, key string) string {
	for _, at := range e.Attributes {
		if at.Key == key {
			return at.Value
		}
	}
	return ""
}

func (w *World) queueProviderDoubleSign(a *Action) *StepResult {
	v, ok := w.Vals[a.Val]
	if !ok || v.ProvKey == "" {
		return &StepResult{Skipped: "unknown validator"}
	}
	ck := w.Keys.Get(v.ProvKey)
	val, err := w.P.PApp.StakingKeeper.GetValidatorByConsAddr(w.P.Ctx(), ck.Addr())
	if err != nil {
		return &StepResult{Skipped: "validator not in staking"}
	}
	h := w.P.Height
	if a.N > 0 && a.N < h {
		h = h - a.N
	}
	if h < 1 {
		return &StepResult{Skipped: "no height yet"}
	}
	rec := w.P.Headers[h]
	if rec == nil {
		return &StepResult{Skipped: "no header"}
	}
	_, tv := rec.Vals.GetByAddress(ck.Priv.PubKey().Address())
	if tv == nil {
		return &StepResult{Skipped: "validator did not sign that height"}
	}
	_ = val
	w.pendingDS = append(w.pendingDS, abci.Misbehavior{
		Type:             abci.MisbehaviorType_DUPLICATE_VOTE,
		Validator:        abci.Validator{Address: ck.Priv.PubKey().Address(), Power: tv.VotingPower},
		Height:           h,
		Time:             rec.Header.Time,
		TotalVotingPower: rec.Vals.TotalVotingPower(),
	})
	return &StepResult{}
}

// SortedValNames returns validator names in creation order.
func (w *World) SortedValNames() []string {
	out := append([]string{}, w.ValOrder...)
	return out
}

// SortedLabels returns the labels of this case.
func (w *World) SortedLabels() []string {
	var out []string
	for l := range w.Labels {
		out = append(out, l)
	}
	sort.Strings(out)
	return out
}
