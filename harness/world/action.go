// Package world holds the generated alphabet (Action), the interpreter that applies actions to the real
// applications, the abstract model/recording used by generators and oracles, and the observation helpers.
package world

import (
	"encoding/json"
	"time"
)

// Action kinds.
const (
	KBlock           = "block"
	KDelegate        = "delegate"
	KUndelegate      = "undelegate"
	KRedelegate      = "redelegate"
	KCreateValidator = "create_validator"
	KUnjail          = "unjail"
	KGovProviderParm = "gov_provider_params"
	KGovStakingParm  = "gov_staking_params"
	KGovRewardDenoms = "gov_reward_denoms"
	KTxRewardDenoms  = "tx_reward_denoms"   // MsgChangeRewardDenoms signed by a non-authority (must fail)
	KTxProviderParm  = "tx_provider_params" // MsgUpdateParams signed by a non-authority (must fail)
	KCreateConsumer  = "create_consumer"
	KUpdateConsumer  = "update_consumer" // Sender "gov" => dispatched as the authority
	KRemoveConsumer  = "remove_consumer"
	KOptIn           = "opt_in"
	KOptOut          = "opt_out"
	KAssignKey       = "assign_key"
	KSetCommission   = "set_commission"
	KDoubleVote      = "submit_double_voting"
	KMisbehaviour    = "submit_misbehaviour"
	KProviderDS      = "provider_double_sign" // evidence delivered to the provider through FinalizeBlock.Misbehavior
	KInject          = "inject_fault"
	KRelay           = "relay"    // F-world relayer step
	KConsumerTx      = "consumer_tx"
	KRawPacket       = "raw_packet"
	KRawAck          = "raw_error_ack" // a byzantine consumer answers the next validator-set packet with an error acknowledgement
	KProbe           = "probe_handshake" // call a channel-handshake callback on a branched context (no state change)
	KMulti           = "multi_tx" // one tx carrying the messages of all sub-actions (same sender)
)

// Action is one element of a generated history. All fields are plain data so a trace is a JSON document.
type Action struct {
	Kind string `json:"kind"`

	Chain  string   `json:"chain,omitempty"`  // "" = provider, else consumer id
	Dt     int64    `json:"dt,omitempty"`     // block: nanoseconds since the previous block of that chain
	Absent []string `json:"absent,omitempty"` // block: key names whose vote for the previous block is absent

	Sender   string `json:"sender,omitempty"` // account name that signs the tx ("gov" = authority dispatch)
	Val      string `json:"val,omitempty"`    // validator name
	Val2     string `json:"val2,omitempty"`
	Amount   int64  `json:"amount,omitempty"`
	Key      string `json:"key,omitempty"`      // consensus key name
	Consumer string `json:"consumer,omitempty"` // consumer id
	Rate     string `json:"rate,omitempty"`
	N        int64  `json:"n,omitempty"`

	Spec   *ConsumerSpec   `json:"spec,omitempty"`
	Params *ProviderParams `json:"params,omitempty"`
	Denoms []string        `json:"denoms,omitempty"`
	Denoms2 []string       `json:"denoms2,omitempty"`

	Ev    *EvidenceSpec `json:"ev,omitempty"`
	Relay *RelaySpec    `json:"relay,omitempty"`
	Fault *FaultSpec    `json:"fault,omitempty"`
	Pkt   *PacketSpec   `json:"pkt,omitempty"`
	Fee   string        `json:"fee,omitempty"`
	Sub   []Action      `json:"sub,omitempty"`
	Probe *ProbeSpec    `json:"probe,omitempty"`
}

// ProbeSpec are the parameters of a handshake-callback probe.
type ProbeSpec struct {
	Side     string   `json:"side"`     // "provider" or a consumer id
	Callback string   `json:"callback"` // try | init | ack
	Order    string   `json:"order"`    // ordered | unordered | none
	Port     string   `json:"port"`
	CpPort   string   `json:"cp_port"`
	Version  string   `json:"version"`
	Hops     []string `json:"hops"`
}

func (a Action) String() string {
	b, _ := json.Marshal(a)
	return string(b)
}

// ConsumerSpec carries the optional parts of MsgCreateConsumer / MsgUpdateConsumer.
type ConsumerSpec struct {
	ChainID    string          `json:"chain_id,omitempty"`
	NewOwner   string          `json:"new_owner,omitempty"` // account name, "gov", or a raw string starting with "!"
	Metadata   string          `json:"metadata,omitempty"`
	Init       *InitSpec       `json:"init,omitempty"`
	Shaping    *ShapingSpec    `json:"shaping,omitempty"`
	Infraction *InfractionSpec `json:"infraction,omitempty"`
	RewardDenoms []string      `json:"reward_denoms,omitempty"`
	HasRewardDenoms bool       `json:"has_reward_denoms,omitempty"`
}

type InitSpec struct {
	SpawnTime      int64  `json:"spawn_time,omitempty"` // unix nanoseconds; 0 = zero time
	UnbondingSec   int64  `json:"unbonding_sec,omitempty"`
	ConnectionID   string `json:"connection_id,omitempty"`
	RevNumber      uint64 `json:"rev_number,omitempty"`
	RevHeight      uint64 `json:"rev_height,omitempty"`
	Fraction       string `json:"fraction,omitempty"`
	BlocksPerDistr int64  `json:"blocks_per_distr,omitempty"`
	TransferChan   string `json:"transfer_chan,omitempty"`
	CcvTimeoutSec  int64  `json:"ccv_timeout_sec,omitempty"`
}

type ShapingSpec struct {
	TopN          uint32   `json:"top_n,omitempty"`
	PowerCap      uint32   `json:"power_cap,omitempty"`
	SetCap        uint32   `json:"set_cap,omitempty"`
	Allow         []string `json:"allow,omitempty"` // validator names ("x:<name>" = address of a non-validator key)
	Deny          []string `json:"deny,omitempty"`
	Priority      []string `json:"priority,omitempty"`
	MinStake      uint64   `json:"min_stake,omitempty"`
	AllowInactive bool     `json:"allow_inactive,omitempty"`
}

type InfractionSpec struct {
	HasDS   bool   `json:"has_ds,omitempty"`
	DSJail  int64  `json:"ds_jail_sec,omitempty"`
	DSFrac  string `json:"ds_frac,omitempty"`
	DSTomb  bool   `json:"ds_tomb,omitempty"`
	HasDT   bool   `json:"has_dt,omitempty"`
	DTJail  int64  `json:"dt_jail_sec,omitempty"`
	DTFrac  string `json:"dt_frac,omitempty"`
}

// ProviderParams are the provider parameters a governance update may change (0/"" = keep).
type ProviderParams struct {
	MaxProviderVal int64 `json:"max_provider_val,omitempty"`
	BlocksPerEpoch int64 `json:"blocks_per_epoch,omitempty"`
	MaxValidators  uint32 `json:"max_validators,omitempty"` // staking params
}

type EvidenceSpec struct {
	Signer     string `json:"signer,omitempty"`   // validator name whose key signs
	KeyName    string `json:"key_name,omitempty"` // key used to sign the votes
	Height     int64  `json:"height,omitempty"`
	Mutation   string `json:"mutation,omitempty"`
	OtherChain string `json:"other_chain,omitempty"`
	Signers    []string `json:"signers,omitempty"` // misbehaviour: key names signing both headers
	Extra      []string `json:"extra,omitempty"`
}

type RelaySpec struct {
	Op   string `json:"op"` // update_client, conn, chan, recv, ack, timeout, transfer_chan ...
	Dir  string `json:"dir,omitempty"` // "p2c" or "c2p"
	K    int    `json:"k,omitempty"`
	Arg  string `json:"arg,omitempty"`
	Arg2 string `json:"arg2,omitempty"`
}

type FaultSpec struct {
	Site string `json:"site"`
	Nth  int    `json:"nth"`
}

type PacketSpec struct {
	AddrKey    string `json:"addr_key,omitempty"` // key name whose address is reported
	Power      int64  `json:"power,omitempty"`
	VscID      uint64 `json:"vsc_id,omitempty"`
	Infraction string `json:"infraction,omitempty"` // downtime | double_sign | unspecified
	Raw        string `json:"raw,omitempty"`        // base64 raw bytes (RawPacket)
}

func dur(ns int64) time.Duration { return time.Duration(ns) }
