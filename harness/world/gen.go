package world

import (
	"fmt"
	"sort"
	"time"

	"pgregory.net/rapid"

	stakingtypes "github.com/cosmos/cosmos-sdk/x/staking/types"

	"verif/harness/sim"
)

// Weighted picks a key of weights with probability proportional to its weight (deterministic order).
func Weighted(t *rapid.T, label string, weights map[string]int) string {
	keys := make([]string, 0, len(weights))
	total := 0
	for k, wgt := range weights {
		if wgt > 0 {
			keys = append(keys, k)
			total += wgt
		}
	}
	sort.Strings(keys)
	if total == 0 {
		panic("no positive weights")
	}
	x := rapid.IntRange(0, total-1).Draw(t, label)
	for _, k := range keys {
		x -= weights[k]
		if x < 0 {
			return k
		}
	}
	return keys[len(keys)-1]
}

// GenProviderConfig draws a provider configuration.
type CfgOpts struct {
	MinVals, MaxVals int
	SmallM           bool // draw M around the number of validators (so the boundary is crossed)
	Spare            int
}

func GenConfig(t *rapid.T, o CfgOpts) Config {
	n := rapid.IntRange(o.MinVals, o.MaxVals).Draw(t, "nvals")
	pc := sim.DefaultProviderConfig(0)
	class := rapid.SampledFrom([]string{"equal", "equal-power", "distinct", "whale", "dust"}).Draw(t, "tokclass")
	for i := 0; i < n; i++ {
		var tok int64
		switch class {
		case "equal":
			tok = 3_000_000
		case "equal-power":
			tok = 3_000_000 + int64(rapid.IntRange(0, 999_999).Draw(t, "tokfrac"))
		case "distinct":
			tok = int64(rapid.IntRange(1, 40).Draw(t, "tokm"))*1_000_000 + int64(rapid.IntRange(0, 999_999).Draw(t, "tokfrac"))
		case "whale":
			if i == 0 {
				tok = 500_000_000
			} else {
				tok = int64(rapid.IntRange(1, 9).Draw(t, "tokm")) * 1_000_000
			}
		case "dust":
			if i < 2 {
				tok = int64(rapid.IntRange(20, 60).Draw(t, "tokm")) * 1_000_000
			} else {
				tok = 1_000_000 + int64(rapid.IntRange(0, 2_000_000).Draw(t, "tokfrac"))
			}
		}
		pc.Validators = append(pc.Validators, sim.ValSpec{Name: fmt.Sprintf("v%d", i), Tokens: tok})
	}
	if o.SmallM {
		pc.MaxProviderVal = int64(rapid.IntRange(1, n+2).Draw(t, "M"))
	} else {
		pc.MaxProviderVal = int64(rapid.SampledFrom([]int{n + 5, n, n - 1, n / 2, 2}).Draw(t, "M"))
		if pc.MaxProviderVal < 1 {
			pc.MaxProviderVal = 1
		}
	}
	pc.MaxValidators = uint32(n + 3)
	pc.BlocksPerEpoch = int64(rapid.SampledFrom([]int{1, 2, 3, 5}).Draw(t, "bpe"))
	pc.EpochsToReward = int64(rapid.SampledFrom([]int{0, 1, 3}).Draw(t, "epochsReward"))
	pc.UnbondingTime = time.Duration(rapid.SampledFrom([]int{60, 300, 1000, 3000}).Draw(t, "ub")) * time.Second
	pc.SignedBlocksWindow = int64(rapid.SampledFrom([]int{2, 4, 6}).Draw(t, "sbw"))
	pc.DowntimeJailDuration = time.Duration(rapid.SampledFrom([]int{5, 60, 600}).Draw(t, "jail")) * time.Second
	pc.ReplenishFraction = rapid.SampledFrom([]string{"0.01", "0.05", "0.3", "1.0"}).Draw(t, "rfrac")
	pc.ReplenishPeriod = time.Duration(rapid.SampledFrom([]int{5, 60, 3600}).Draw(t, "rper")) * time.Second
	return Config{Provider: pc, SpareAccs: o.Spare}
}

// SafeVal is the validator the generators never unbond, jail or make equivocate, so that the provider's
// validator set can never become empty (a precondition of running CometBFT at all).
const SafeVal = "v0"

// Delegators returns the account names that may delegate.
func (w *World) Delegators() []string {
	return []string{"alice", "bob", "carol"}
}

// FreeAccount picks an account (from candidates) that has no tx queued; "" if none.
func (w *World) FreeAccount(t *rapid.T, candidates []string) string {
	var free []string
	for _, c := range candidates {
		if !w.busy[c] {
			free = append(free, c)
		}
	}
	if len(free) == 0 {
		return ""
	}
	return rapid.SampledFrom(free).Draw(t, "acc")
}

// GenDt draws a block time step (nanoseconds).
func (w *World) GenDt(t *rapid.T) int64 {
	class := Weighted(t, "dtclass", map[string]int{"short": 8, "ub": 1, "jail": 2, "replenish": 1})
	switch class {
	case "ub":
		return int64(w.Cfg.Provider.UnbondingTime) + int64(rapid.IntRange(-1, 1).Draw(t, "dtoff"))
	case "jail":
		return int64(w.Cfg.Provider.DowntimeJailDuration) + int64(rapid.IntRange(0, 2).Draw(t, "dtoff"))*int64(time.Second)
	case "replenish":
		return int64(w.Cfg.Provider.ReplenishPeriod)
	}
	return int64(rapid.IntRange(1, 6).Draw(t, "dts")) * int64(time.Second)
}

// GenBlock draws a provider block action (possibly with absent voters).
func (w *World) GenBlock(t *rapid.T, absentProb int) Action {
	a := Action{Kind: KBlock, Dt: w.GenDt(t)}
	if absentProb > 0 && rapid.IntRange(0, 99).Draw(t, "absent?") < absentProb {
		// choose one or two validators to be absent
		names := w.ValOrder
		k := rapid.IntRange(1, 2).Draw(t, "nabsent")
		for i := 0; i < k && i < len(names); i++ {
			v := rapid.SampledFrom(names).Draw(t, "absentval")
			if v != SafeVal && w.Vals[v].ProvKey != "" {
				a.Absent = append(a.Absent, w.Vals[v].ProvKey)
			}
		}
	}
	return a
}

// GenStaking draws a staking action (delegate / undelegate / redelegate / create validator / unjail).
func (w *World) GenStaking(t *rapid.T, obs map[string]ValObs) (Action, bool) {
	kind := Weighted(t, "stk", map[string]int{KDelegate: 5, KUndelegate: 4, KRedelegate: 2, KCreateValidator: 1, KUnjail: 2})
	vals := w.ValOrder
	switch kind {
	case KDelegate:
		acc := w.FreeAccount(t, w.Delegators())
		if acc == "" {
			return Action{}, false
		}
		return Action{Kind: KDelegate, Sender: acc, Val: rapid.SampledFrom(vals).Draw(t, "val"), Amount: w.genAmount(t)}, true
	case KUndelegate, KRedelegate:
		// pick a delegator; operators undelegate their self-delegation, users what they delegated
		var cands []string
		cands = append(cands, w.Delegators()...)
		cands = append(cands, vals...)
		acc := w.FreeAccount(t, cands)
		if acc == "" {
			return Action{}, false
		}
		val := rapid.SampledFrom(vals).Draw(t, "val")
		if _, isVal := w.Vals[acc]; isVal {
			val = acc
		}
		if val == SafeVal {
			// soundness precondition: one validator always stays bonded (CometBFT cannot run an empty set)
			return Action{}, false
		}
		// amount: a fraction of the delegation if one exists
		amt := w.genAmount(t)
		del, err := w.P.PApp.StakingKeeper.GetDelegation(w.P.Ctx(), w.P.Accounts[acc].Addr(), w.ValAddr(val))
		if err == nil {
			if v, err := w.P.PApp.StakingKeeper.GetValidator(w.P.Ctx(), w.ValAddr(val)); err == nil {
				tok := v.TokensFromShares(del.Shares).TruncateInt().Int64()
				if tok > 0 {
					switch rapid.IntRange(0, 3).Draw(t, "amtclass") {
					case 0:
						amt = tok
					case 1:
						amt = tok/2 + 1
					case 2:
						if amt > tok {
							amt = tok
						}
					}
				}
			}
		}
		if kind == KUndelegate {
			return Action{Kind: KUndelegate, Sender: acc, Val: val, Amount: amt}, true
		}
		val2 := rapid.SampledFrom(vals).Draw(t, "val2")
		if val2 == val {
			return Action{}, false
		}
		return Action{Kind: KRedelegate, Sender: acc, Val: val, Val2: val2, Amount: amt}, true
	case KCreateValidator:
		for i := 0; i < w.Cfg.SpareAccs; i++ {
			name := fmt.Sprintf("n%d", i)
			if _, exists := w.Vals[name]; exists || w.busy[name] {
				continue
			}
			return Action{Kind: KCreateValidator, Sender: name, Key: sim.ConsKeyName(name), Amount: w.genAmount(t) + 1_000_000}, true
		}
		return Action{}, false
	case KUnjail:
		var jailed []string
		for _, n := range vals {
			if obs[n].Jailed && !w.busy[n] {
				jailed = append(jailed, n)
			}
		}
		if len(jailed) == 0 {
			return Action{}, false
		}
		return Action{Kind: KUnjail, Val: rapid.SampledFrom(jailed).Draw(t, "jv")}, true
	}
	return Action{}, false
}

func (w *World) genAmount(t *rapid.T) int64 {
	switch rapid.IntRange(0, 4).Draw(t, "amtk") {
	case 0:
		return int64(rapid.IntRange(1, 999_999).Draw(t, "amt"))
	case 1:
		return int64(rapid.IntRange(1, 10).Draw(t, "amt")) * 1_000_000
	case 2:
		return int64(rapid.IntRange(1, 40).Draw(t, "amt"))*1_000_000 + int64(rapid.IntRange(0, 999_999).Draw(t, "amtf"))
	case 3:
		return 1_000_000
	}
	return int64(rapid.IntRange(1, 3_000_000).Draw(t, "amt"))
}

// BondedNames returns the names of bonded validators in obs, sorted by name order of creation.
func (w *World) BondedNames(obs map[string]ValObs) []string {
	var out []string
	for _, n := range w.ValOrder {
		if o := obs[n]; o.Exists && o.Status == stakingtypes.Bonded {
			out = append(out, n)
		}
	}
	return out
}
