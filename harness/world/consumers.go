package world

import (
	"fmt"
	"sort"
	"strconv"
	"time"

	"pgregory.net/rapid"

	clienttypes "github.com/cosmos/ibc-go/v10/modules/core/02-client/types"

	providertypes "github.com/cosmos/interchain-security/v7/x/ccv/provider/types"
)

// ConsObs is the provider's view of one consumer.
type ConsObs struct {
	ID        string
	Phase     providertypes.ConsumerPhase
	Owner     string
	ChainID   string
	SpawnTime time.Time
	Init      providertypes.ConsumerInitializationParameters
	HasInit   bool
	Shaping   providertypes.PowerShapingParameters
	OptedIn   map[string]bool // provider cons addr hex upper
	MinPower  int64
	HasMinPow bool
	ClientID  string
	ChannelID string
	Set       []CV
	Keys      map[string]string // provider cons addr hex -> assigned consumer pubkey hex
}

// NextConsumerID returns the id the next created consumer will get (number of ids handed out so far).
func (w *World) NextConsumerID() uint64 {
	id, _ := w.P.PApp.ProviderKeeper.GetConsumerId(w.P.Ctx())
	return id
}

// ConsumerIDs returns all ids handed out so far.
func (w *World) ConsumerIDs() []string {
	n := w.NextConsumerID()
	out := make([]string, 0, n)
	for i := uint64(0); i < n; i++ {
		out = append(out, strconv.FormatUint(i, 10))
	}
	return out
}

// ObserveConsumer reads the provider state of a consumer.
func (w *World) ObserveConsumer(id string) ConsObs {
	ctx := w.P.Ctx()
	k := w.P.PApp.ProviderKeeper
	o := ConsObs{ID: id, OptedIn: map[string]bool{}, Keys: map[string]string{}}
	o.Phase = k.GetConsumerPhase(ctx, id)
	o.Owner, _ = k.GetConsumerOwnerAddress(ctx, id)
	o.ChainID, _ = k.GetConsumerChainId(ctx, id)
	if ip, err := k.GetConsumerInitializationParameters(ctx, id); err == nil {
		o.Init = ip
		o.HasInit = true
		o.SpawnTime = ip.SpawnTime
	}
	if sp, err := k.GetConsumerPowerShapingParameters(ctx, id); err == nil {
		o.Shaping = sp
	}
	for _, a := range k.GetAllOptedIn(ctx, id) {
		o.OptedIn[fmt.Sprintf("%X", a.Address.Bytes())] = true
	}
	o.MinPower, o.HasMinPow = k.GetMinimumPowerInTopN(ctx, id)
	o.ClientID, _ = k.GetConsumerClientId(ctx, id)
	o.ChannelID, _ = k.GetConsumerIdToChannelId(ctx, id)
	if vs, err := k.GetConsumerValSet(ctx, id); err == nil {
		o.Set = ToCVs(vs)
	}
	idc := id
	for _, kp := range k.GetAllValidatorConsumerPubKeys(ctx, &idc) {
		o.Keys[fmt.Sprintf("%X", kp.ProviderAddr)] = fmt.Sprintf("%X", kp.ConsumerKey.GetEd25519())
	}
	return o
}

// ---- generators for consumer lifecycle and validator messages ----

// ConsumerGenOpts tunes the consumer generators.
type ConsumerGenOpts struct {
	ChainIDs      []string
	MaxConsumers  int
	AllowTopN     bool
	KeyPool       int  // number of shared key names k0..k{n-1} used for assignments
	StrangerProb  int  // percent of messages sent by somebody who is not entitled
	ConnectionIDs []string
}

func (w *World) users() []string { return []string{"alice", "bob", "carol"} }

// GenShaping draws power-shaping parameters.
func (w *World) GenShaping(t *rapid.T, topN bool) *ShapingSpec {
	n := len(w.ValOrder)
	s := &ShapingSpec{}
	if topN {
		s.TopN = uint32(rapid.SampledFrom([]int{50, 51, 60, 67, 75, 90, 99, 100}).Draw(t, "topn"))
	}
	s.SetCap = uint32(rapid.SampledFrom([]int{0, 0, 1, 2, n / 2, n + 1}).Draw(t, "setcap"))
	s.PowerCap = uint32(rapid.SampledFrom([]int{0, 0, 1, 10, 25, 34, 50, 60, 75, 100}).Draw(t, "powercap"))
	s.AllowInactive = rapid.Bool().Draw(t, "allowinactive")
	pick := func(label string, prob int) []string {
		if rapid.IntRange(0, 99).Draw(t, label+"?") >= prob {
			return nil
		}
		k := rapid.IntRange(1, n).Draw(t, label+"n")
		var out []string
		seen := map[string]bool{}
		for i := 0; i < k; i++ {
			v := rapid.SampledFrom(append(append([]string{}, w.ValOrder...), "x:stranger")).Draw(t, label+"v")
			if !seen[v] {
				seen[v] = true
				out = append(out, v)
			}
		}
		return out
	}
	s.Allow = pick("allow", 25)
	s.Deny = pick("deny", 25)
	s.Priority = pick("prio", 30)
	switch rapid.IntRange(0, 3).Draw(t, "minstake?") {
	case 0:
		// near some validator's tokens
		v := rapid.SampledFrom(w.ValOrder).Draw(t, "minstakeval")
		if val, err := w.P.PApp.StakingKeeper.GetValidator(w.P.Ctx(), w.ValAddr(v)); err == nil {
			tok := val.Tokens.Int64() + int64(rapid.IntRange(-1, 1).Draw(t, "minstakeoff"))
			if tok > 0 {
				s.MinStake = uint64(tok)
			}
		}
	}
	return s
}

// GenInit draws initialization parameters; spawn classes: zero, past, now, near future, far future.
func (w *World) GenInit(t *rapid.T, o ConsumerGenOpts) *InitSpec {
	now := w.P.Time.UnixNano()
	s := &InitSpec{RevHeight: 1, UnbondingSec: int64(rapid.SampledFrom([]int{100, 1000, 5000}).Draw(t, "cub"))}
	switch Weighted(t, "spawn", map[string]int{"zero": 2, "past": 2, "now": 2, "soon": 5, "far": 1}) {
	case "zero":
		s.SpawnTime = 0
	case "past":
		s.SpawnTime = now - int64(rapid.IntRange(1, 100).Draw(t, "spawnpast"))*int64(time.Second)
	case "now":
		s.SpawnTime = now
	case "soon":
		s.SpawnTime = now + int64(rapid.IntRange(1, 20).Draw(t, "spawnsoon"))*int64(time.Second)
	case "far":
		s.SpawnTime = now + int64(rapid.IntRange(100, 100000).Draw(t, "spawnfar"))*int64(time.Second)
	}
	if len(o.ConnectionIDs) > 0 && rapid.IntRange(0, 9).Draw(t, "conn?") == 0 {
		s.ConnectionID = rapid.SampledFrom(o.ConnectionIDs).Draw(t, "connid")
	}
	return s
}

// RevOf returns the revision number encoded in a chain id ("name-<rev>"), 0 if none.
func RevOf(chainID string) uint64 {
	return clienttypes.ParseChainID(chainID)
}

// GenPushToLaunch draws an action that moves some pre-launch consumer towards a successful launch:
// an opt-in if it has few, otherwise a (re)scheduling update by its owner.
func (w *World) GenPushToLaunch(t *rapid.T, o ConsumerGenOpts) (Action, bool) {
	ids := w.ConsumersInPhase(PhReg, PhInit)
	if len(ids) == 0 {
		return Action{}, false
	}
	id := rapid.SampledFrom(ids).Draw(t, "pushcid")
	co := w.ObserveConsumer(id)
	if len(co.OptedIn) < 2 || rapid.IntRange(0, 2).Draw(t, "moreoptin") == 0 {
		v := w.FreeAccount(t, w.ValOrder)
		if v == "" {
			return Action{}, false
		}
		return Action{Kind: KOptIn, Sender: v, Val: v, Consumer: id}, true
	}
	if co.Phase == PhInit {
		return Action{}, false
	}
	owner := w.OwnerName(co.Owner)
	if owner == "" || (owner != "gov" && w.busy[owner]) || (owner == "gov" && w.busy[GovProposer]) {
		return Action{}, false
	}
	init := w.GenInit(t, o)
	init.SpawnTime = w.P.Time.UnixNano() + int64(rapid.IntRange(0, 10).Draw(t, "respawn"))*int64(time.Second)
	init.RevNumber = RevOf(co.ChainID)
	return Action{Kind: KUpdateConsumer, Sender: owner, Consumer: id, Spec: &ConsumerSpec{Init: init}}, true
}

// GenCreateConsumer draws a create-consumer action.
func (w *World) GenCreateConsumer(t *rapid.T, o ConsumerGenOpts) (Action, bool) {
	acc := w.FreeAccount(t, w.users())
	if acc == "" {
		return Action{}, false
	}
	spec := &ConsumerSpec{ChainID: rapid.SampledFrom(o.ChainIDs).Draw(t, "chainid"), Metadata: "x"}
	if rapid.IntRange(0, 9).Draw(t, "init?") < 8 {
		spec.Init = w.GenInit(t, o)
		spec.Init.RevNumber = RevOf(spec.ChainID)
		if rapid.IntRange(0, 19).Draw(t, "badrev") == 0 {
			spec.Init.RevNumber++
		}
	}
	if rapid.IntRange(0, 9).Draw(t, "shaping?") < 7 {
		spec.Shaping = w.GenShaping(t, false)
	}
	return Action{Kind: KCreateConsumer, Sender: acc, Spec: spec}, true
}

// OwnerName maps an owner address to the harness name ("gov", account name, or "").
func (w *World) OwnerName(addr string) string {
	if addr == w.accAddr("gov") {
		return "gov"
	}
	for name, a := range w.P.Accounts {
		if a.Bech32() == addr {
			return name
		}
	}
	return ""
}

// ActiveConsumers returns ids of consumers in the given phases.
func (w *World) ConsumersInPhase(phases ...providertypes.ConsumerPhase) []string {
	var out []string
	ctx := w.P.Ctx()
	for _, id := range w.ConsumerIDs() {
		ph := w.P.PApp.ProviderKeeper.GetConsumerPhase(ctx, id)
		for _, p := range phases {
			if p == ph {
				out = append(out, id)
				break
			}
		}
	}
	return out
}

var (
	PhReg      = providertypes.CONSUMER_PHASE_REGISTERED
	PhInit     = providertypes.CONSUMER_PHASE_INITIALIZED
	PhLaunched = providertypes.CONSUMER_PHASE_LAUNCHED
	PhStopped  = providertypes.CONSUMER_PHASE_STOPPED
	PhDeleted  = providertypes.CONSUMER_PHASE_DELETED
)

// GenSender picks the sender of an owner-only message: mostly the owner, sometimes somebody else.
func (w *World) GenSender(t *rapid.T, owner string, strangerProb int) string {
	ownerName := w.OwnerName(owner)
	if rapid.IntRange(0, 99).Draw(t, "stranger?") < strangerProb || ownerName == "" {
		cands := append(append([]string{}, w.users()...), "gov")
		return rapid.SampledFrom(cands).Draw(t, "sender")
	}
	return ownerName
}

// GenUpdateConsumer draws an update action for some existing consumer.
func (w *World) GenUpdateConsumer(t *rapid.T, o ConsumerGenOpts) (Action, bool) {
	ids := w.ConsumerIDs()
	if len(ids) == 0 {
		return Action{}, false
	}
	id := rapid.SampledFrom(ids).Draw(t, "cid")
	co := w.ObserveConsumer(id)
	sender := w.GenSender(t, co.Owner, o.StrangerProb)
	if (sender != "gov" && w.busy[sender]) || (sender == "gov" && w.busy[GovProposer]) {
		return Action{}, false
	}
	spec := &ConsumerSpec{}
	part := Weighted(t, "updpart", map[string]int{"owner": 3, "init": 5, "shaping": 6, "chainid": 1, "meta": 1, "topn": 3, "multi": 2})
	prelaunch := co.Phase == PhReg || co.Phase == PhInit
	switch part {
	case "owner":
		spec.NewOwner = rapid.SampledFrom(append(append([]string{}, w.users()...), "gov")).Draw(t, "newowner")
	case "init":
		spec.Init = w.GenInit(t, o)
		spec.Init.RevNumber = RevOf(co.ChainID)
	case "shaping":
		spec.Shaping = w.GenShaping(t, co.Shaping.Top_N > 0 && rapid.Bool().Draw(t, "keeptopn"))
	case "topn":
		spec.Shaping = w.GenShaping(t, o.AllowTopN)
	case "chainid":
		spec.ChainID = rapid.SampledFrom(o.ChainIDs).Draw(t, "newchainid")
	case "meta":
		spec.Metadata = "y"
	case "multi":
		spec.NewOwner = rapid.SampledFrom(append(append([]string{}, w.users()...), "gov")).Draw(t, "newowner")
		spec.Shaping = w.GenShaping(t, o.AllowTopN && rapid.Bool().Draw(t, "multitopn"))
		if prelaunch && rapid.Bool().Draw(t, "multiinit") {
			spec.Init = w.GenInit(t, o)
			spec.Init.RevNumber = RevOf(co.ChainID)
		}
	}
	return Action{Kind: KUpdateConsumer, Sender: sender, Consumer: id, Spec: spec}, true
}

// GenRemoveConsumer draws a remove action.
func (w *World) GenRemoveConsumer(t *rapid.T, o ConsumerGenOpts) (Action, bool) {
	ids := w.ConsumerIDs()
	if len(ids) == 0 {
		return Action{}, false
	}
	// prefer launched consumers
	launched := w.ConsumersInPhase(PhLaunched)
	id := rapid.SampledFrom(ids).Draw(t, "cid")
	if len(launched) > 0 && rapid.IntRange(0, 9).Draw(t, "preferlaunched") < 8 {
		id = rapid.SampledFrom(launched).Draw(t, "lcid")
	}
	co := w.ObserveConsumer(id)
	sender := w.GenSender(t, co.Owner, o.StrangerProb)
	if sender != "gov" && w.busy[sender] {
		return Action{}, false
	}
	return Action{Kind: KRemoveConsumer, Sender: sender, Consumer: id}, true
}

// GenValidatorMsg draws opt-in / opt-out / assign-key / commission messages.
func (w *World) GenValidatorMsg(t *rapid.T, o ConsumerGenOpts) (Action, bool) {
	ids := w.ConsumerIDs()
	if len(ids) == 0 {
		return Action{}, false
	}
	id := rapid.SampledFrom(ids).Draw(t, "cid")
	if rapid.IntRange(0, 19).Draw(t, "unknowncid") == 0 {
		id = strconv.Itoa(len(ids) + 3)
	}
	val := rapid.SampledFrom(w.ValOrder).Draw(t, "val")
	sender := val
	if rapid.IntRange(0, 99).Draw(t, "stranger?") < o.StrangerProb {
		sender = rapid.SampledFrom(append(append([]string{}, w.users()...), w.ValOrder...)).Draw(t, "sender")
	}
	if w.busy[sender] {
		return Action{}, false
	}
	kind := Weighted(t, "vmsg", map[string]int{KOptIn: 6, KOptOut: 3, KAssignKey: 3, KSetCommission: 1})
	a := Action{Kind: kind, Sender: sender, Val: val, Consumer: id}
	switch kind {
	case KOptIn:
		if o.KeyPool > 0 && rapid.IntRange(0, 3).Draw(t, "withkey") == 0 {
			a.Key = w.genKeyName(t, o, val)
		}
	case KAssignKey:
		a.Key = w.genKeyName(t, o, val)
	case KSetCommission:
		a.Rate = rapid.SampledFrom([]string{"0.0", "0.05", "0.1", "0.5", "1.0", "0.000000000000000001"}).Draw(t, "rate")
	}
	return a, true
}

func (w *World) genKeyName(t *rapid.T, o ConsumerGenOpts, val string) string {
	switch Weighted(t, "keyorigin", map[string]int{"pool": 6, "own-prov": 1, "other-prov": 1, "fresh": 2}) {
	case "own-prov":
		return w.Vals[val].ProvKey
	case "other-prov":
		other := rapid.SampledFrom(w.ValOrder).Draw(t, "otherval")
		return w.Vals[other].ProvKey
	case "fresh":
		return fmt.Sprintf("fresh-%d", len(w.Trace))
	}
	n := o.KeyPool
	if n <= 0 {
		n = 6
	}
	return fmt.Sprintf("k%d", rapid.IntRange(0, n-1).Draw(t, "poolkey"))
}

// SortedStrings returns a sorted copy.
func SortedStrings(in []string) []string {
	out := append([]string{}, in...)
	sort.Strings(out)
	return out
}
