//go:build verif

package world

import (
	"context"
	"errors"
	"runtime"
	"strings"
	"time"

	"cosmossdk.io/math"

	sdk "github.com/cosmos/cosmos-sdk/types"
	stakingtypes "github.com/cosmos/cosmos-sdk/x/staking/types"

	clienttypes "github.com/cosmos/ibc-go/v10/modules/core/02-client/types"
	conntypes "github.com/cosmos/ibc-go/v10/modules/core/03-connection/types"
	channeltypes "github.com/cosmos/ibc-go/v10/modules/core/04-channel/types"
	ibcexported "github.com/cosmos/ibc-go/v10/modules/core/exported"

	providerkeeper "github.com/cosmos/interchain-security/v7/x/ccv/provider/keeper"
	ccv "github.com/cosmos/interchain-security/v7/x/ccv/types"
)

// The fault injector wraps the provider keeper's external keepers (through the verif-tagged accessor in
// /repo) and fails the n-th call of a chosen method made from inside a chosen consumer operation.

var errInjected = errors.New("injected fault")

// scopes: the consumer operations whose internal failures must be contained (C19)
var faultScopes = map[string]string{
	"keeper.Keeper.LaunchConsumer":          "launch",
	"keeper.Keeper.DeleteConsumerChain":     "delete",
	"keeper.Keeper.SendVSCPacketsToChain":   "send",
	"keeper.Keeper.AllocateConsumerRewards": "alloc",
}

// FaultSites lists the injectable sites as scope:method.
var FaultSites = []string{
	"launch:client.CreateClient", "launch:staking.GetLastValidatorPower", "launch:staking.UnbondingTime", "launch:staking.GetHistoricalInfo",
	"launch:staking.GetValidatorByConsAddr", "launch:connection.GetConnection", "launch:client.GetClientState",
	"delete:channel.GetChannel", "delete:channel.ChanCloseInit",
	"send:channel.SendPacket", "send:channel.SendPacket.inactive", "send:channel.GetChannel",
	"alloc:bank.SendCoinsFromModuleToModule", "alloc:distribution.AllocateTokensToValidator", "alloc:distribution.FundCommunityPool",
	"alloc:distribution.GetCommunityTax", "alloc:staking.GetValidatorByConsAddr",
}

func currentScope() string {
	pcs := make([]uintptr, 48)
	n := runtime.Callers(3, pcs)
	frames := runtime.CallersFrames(pcs[:n])
	for {
		fr, more := frames.Next()
		for suffix, scope := range faultScopes {
			if strings.HasSuffix(fr.Function, suffix) {
				return scope
			}
		}
		if !more {
			break
		}
	}
	return ""
}

func (in *Injector) fire(method string) bool {
	if in == nil || (!in.Armed && !in.Record) {
		return false
	}
	scope := currentScope()
	if scope == "" {
		return false
	}
	site := scope + ":" + method
	in.Counts[site]++
	if in.Armed && in.Site == site && in.Counts[site] == in.Nth {
		in.Hit = site
		return true
	}
	// the "inactive" variant shares the call counter of SendPacket
	if in.Armed && in.Site == site+".inactive" && in.Counts[site] == in.Nth {
		in.Hit = in.Site
		return true
	}
	return false
}

type fClient struct {
	ccv.ClientKeeper
	in *Injector
}

func (f fClient) CreateClient(ctx sdk.Context, clientType string, cs, cons []byte) (string, error) {
	if f.in.fire("client.CreateClient") {
		return "", errInjected
	}
	return f.ClientKeeper.CreateClient(ctx, clientType, cs, cons)
}

func (f fClient) GetClientState(ctx sdk.Context, id string) (ibcexported.ClientState, bool) {
	if f.in.fire("client.GetClientState") {
		return nil, false
	}
	return f.ClientKeeper.GetClientState(ctx, id)
}

type fConn struct {
	ccv.ConnectionKeeper
	in *Injector
}

func (f fConn) GetConnection(ctx sdk.Context, id string) (conntypes.ConnectionEnd, bool) {
	if f.in.fire("connection.GetConnection") {
		return conntypes.ConnectionEnd{}, false
	}
	return f.ConnectionKeeper.GetConnection(ctx, id)
}

type fChannel struct {
	ccv.ChannelKeeper
	in *Injector
}

func (f fChannel) SendPacket(ctx sdk.Context, port, ch string, th clienttypes.Height, ts uint64, data []byte) (uint64, error) {
	if f.in.fire("channel.SendPacket") {
		if strings.HasSuffix(f.in.Hit, ".inactive") {
			return 0, clienttypes.ErrClientNotActive
		}
		return 0, errInjected
	}
	return f.ChannelKeeper.SendPacket(ctx, port, ch, th, ts, data)
}

func (f fChannel) GetChannel(ctx sdk.Context, port, ch string) (channeltypes.Channel, bool) {
	if f.in.fire("channel.GetChannel") {
		return channeltypes.Channel{}, false
	}
	return f.ChannelKeeper.GetChannel(ctx, port, ch)
}

func (f fChannel) ChanCloseInit(ctx sdk.Context, port, ch string) error {
	if f.in.fire("channel.ChanCloseInit") {
		return errInjected
	}
	return f.ChannelKeeper.ChanCloseInit(ctx, port, ch)
}

type fBank struct {
	ccv.BankKeeper
	in *Injector
}

func (f fBank) SendCoinsFromModuleToModule(ctx context.Context, from, to string, amt sdk.Coins) error {
	if f.in.fire("bank.SendCoinsFromModuleToModule") {
		return errInjected
	}
	return f.BankKeeper.SendCoinsFromModuleToModule(ctx, from, to, amt)
}

type fDistr struct {
	ccv.DistributionKeeper
	in *Injector
}

func (f fDistr) FundCommunityPool(ctx context.Context, amt sdk.Coins, sender sdk.AccAddress) error {
	if f.in.fire("distribution.FundCommunityPool") {
		return errInjected
	}
	return f.DistributionKeeper.FundCommunityPool(ctx, amt, sender)
}

func (f fDistr) GetCommunityTax(ctx context.Context) (math.LegacyDec, error) {
	if f.in.fire("distribution.GetCommunityTax") {
		return math.LegacyDec{}, errInjected
	}
	return f.DistributionKeeper.GetCommunityTax(ctx)
}

func (f fDistr) AllocateTokensToValidator(ctx context.Context, v stakingtypes.ValidatorI, reward sdk.DecCoins) error {
	if f.in.fire("distribution.AllocateTokensToValidator") {
		return errInjected
	}
	return f.DistributionKeeper.AllocateTokensToValidator(ctx, v, reward)
}

type fStaking struct {
	ccv.StakingKeeper
	in *Injector
}

func (f fStaking) GetLastValidatorPower(ctx context.Context, op sdk.ValAddress) (int64, error) {
	if f.in.fire("staking.GetLastValidatorPower") {
		return 0, errInjected
	}
	return f.StakingKeeper.GetLastValidatorPower(ctx, op)
}

func (f fStaking) UnbondingTime(ctx context.Context) (time.Duration, error) {
	if f.in.fire("staking.UnbondingTime") {
		return 0, errInjected
	}
	return f.StakingKeeper.UnbondingTime(ctx)
}

func (f fStaking) GetHistoricalInfo(ctx context.Context, h int64) (stakingtypes.HistoricalInfo, error) {
	if f.in.fire("staking.GetHistoricalInfo") {
		return stakingtypes.HistoricalInfo{}, errInjected
	}
	return f.StakingKeeper.GetHistoricalInfo(ctx, h)
}

func (f fStaking) GetValidatorByConsAddr(ctx context.Context, a sdk.ConsAddress) (stakingtypes.Validator, error) {
	if f.in.fire("staking.GetValidatorByConsAddr") {
		return stakingtypes.Validator{}, errInjected
	}
	return f.StakingKeeper.GetValidatorByConsAddr(ctx, a)
}

// InstallInjector wraps the external keepers of the provider keeper.
func (w *World) InstallInjector() {
	in := &Injector{Counts: map[string]int{}}
	w.Inj = in
	pk := &w.P.PApp.ProviderKeeper
	ext := pk.VerifGetExternalKeepers()
	pk.VerifSetExternalKeepers(providerkeeper.VerifExternalKeepers{
		Channel:      fChannel{ext.Channel, in},
		Connection:   fConn{ext.Connection, in},
		Client:       fClient{ext.Client, in},
		Staking:      fStaking{ext.Staking, in},
		Distribution: fDistr{ext.Distribution, in},
		Bank:         fBank{ext.Bank, in},
	})
}
