//go:build !verif

package world

// FaultSites is empty without the verif build tag (no hook in /repo to install the injector through).
var FaultSites = []string{}

// InstallInjector is a no-op without the verif build tag.
func (w *World) InstallInjector() {}
