package world

import (
	"fmt"
	"strconv"

	"cosmossdk.io/math"

	sdk "github.com/cosmos/cosmos-sdk/types"
	govtypes "github.com/cosmos/cosmos-sdk/x/gov/types"
	govv1 "github.com/cosmos/cosmos-sdk/x/gov/types/v1"

	"verif/harness/sim"
)

// GovProposer is the account that submits governance proposals for "gov" actions.
const GovProposer = "govp"

// Proposal tracks a governance proposal created for a "gov" action.
type Proposal struct {
	ID     uint64
	Idx    int // trace index of the action
	Voted  map[string]bool
	Closed bool
}

// GovOutcome is the final result of a "gov" action.
type GovOutcome struct {
	Action   *Action
	Idx      int
	Executed bool   // the proposal passed and its message executed successfully
	Status   string // passed | failed | rejected | submit-failed
	Reason   string
}

// govSubmit wraps the action's message into a real MsgSubmitProposal signed by the proposer account.
// The message is executed by x/gov's EndBlocker after the voting period if the votes (cast automatically by
// all validator operators that are free in a block) pass it.
func (w *World) govSubmit(a *Action, idx int) *StepResult {
	if w.busy[GovProposer] {
		return &StepResult{Skipped: "gov proposer busy"}
	}
	msgs, _, err := w.BuildMsgs(a)
	if err != nil {
		panic(sim.HarnessError{Msg: "build gov msgs: " + err.Error()})
	}
	sp, err := govv1.NewMsgSubmitProposal(msgs, sdk.NewCoins(sdk.NewCoin(sim.BondDenom, math.NewInt(10))), w.accAddr(GovProposer), "", fmt.Sprintf("p%d", idx), "s", false)
	if err != nil {
		panic(sim.HarnessError{Msg: "submit proposal msg: " + err.Error()})
	}
	w.P.Chain.QueueTx(fmt.Sprintf("%d:%s", idx, a.Kind), GovProposer, sp)
	w.busy[GovProposer] = true
	w.queued = append(w.queued, queuedTx{idx: idx, acc: GovProposer, gov: true})
	return &StepResult{}
}

// queueVotes adds yes-votes of all free operator accounts for all open proposals.
func (w *World) queueVotes() {
	if len(w.Proposals) == 0 {
		return
	}
	for _, name := range w.ValOrder {
		if w.busy[name] {
			continue
		}
		var msgs []sdk.Msg
		for _, p := range w.Proposals {
			if p.Closed || p.Voted[name] {
				continue
			}
			msgs = append(msgs, govv1.NewMsgVote(w.P.Accounts[name].Addr(), p.ID, govv1.OptionYes, ""))
			p.Voted[name] = true
		}
		if len(msgs) == 0 {
			continue
		}
		w.P.Chain.QueueTx("vote:"+name, name, msgs...)
		w.busy[name] = true
		w.queued = append(w.queued, queuedTx{idx: -1, acc: name})
	}
}

func (w *World) observeSubmit(to *TxOutcome, res *StepResult) {
	if !to.OK() {
		res.Gov = append(res.Gov, &GovOutcome{Action: to.Action, Idx: to.Idx, Status: "submit-failed", Reason: to.Log})
		return
	}
	idStr := EventAttr(to.Events, govtypes.EventTypeSubmitProposal, govtypes.AttributeKeyProposalID)
	id, err := strconv.ParseUint(idStr, 10, 64)
	if err != nil {
		panic(sim.HarnessError{Msg: "no proposal id in submit events"})
	}
	w.Proposals = append(w.Proposals, &Proposal{ID: id, Idx: to.Idx, Voted: map[string]bool{}})
}

// closeProposals reports proposals that left the voting period in the last block.
func (w *World) closeProposals(res *StepResult) {
	ctx := w.P.Ctx()
	for _, p := range w.Proposals {
		if p.Closed {
			continue
		}
		prop, err := w.P.PApp.GovKeeper.Proposals.Get(ctx, p.ID)
		if err != nil {
			// rejected proposals may be deleted
			p.Closed = true
			res.Gov = append(res.Gov, &GovOutcome{Action: &w.Trace[p.Idx], Idx: p.Idx, Status: "rejected", Reason: err.Error()})
			continue
		}
		switch prop.Status {
		case govv1.StatusPassed:
			p.Closed = true
			w.Label("gov-passed")
			res.Gov = append(res.Gov, &GovOutcome{Action: &w.Trace[p.Idx], Idx: p.Idx, Executed: true, Status: "passed"})
		case govv1.StatusFailed:
			p.Closed = true
			w.Label("gov-failed")
			res.Gov = append(res.Gov, &GovOutcome{Action: &w.Trace[p.Idx], Idx: p.Idx, Status: "failed", Reason: prop.FailedReason})
		case govv1.StatusRejected:
			p.Closed = true
			w.Label("gov-rejected")
			res.Gov = append(res.Gov, &GovOutcome{Action: &w.Trace[p.Idx], Idx: p.Idx, Status: "rejected"})
		}
	}
}
