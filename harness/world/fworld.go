package world

import (
	"bytes"
	"context"
	"fmt"
	"sort"
	"time"

	abci "github.com/cometbft/cometbft/abci/types"

	sdk "github.com/cosmos/cosmos-sdk/types"

	transfertypes "github.com/cosmos/ibc-go/v10/modules/apps/transfer/types"
	clienttypes "github.com/cosmos/ibc-go/v10/modules/core/02-client/types"
	connectiontypes "github.com/cosmos/ibc-go/v10/modules/core/03-connection/types"
	channeltypes "github.com/cosmos/ibc-go/v10/modules/core/04-channel/types"
	commitmenttypes "github.com/cosmos/ibc-go/v10/modules/core/23-commitment/types"
	host "github.com/cosmos/ibc-go/v10/modules/core/24-host"
	ibcexported "github.com/cosmos/ibc-go/v10/modules/core/exported"
	ibctm "github.com/cosmos/ibc-go/v10/modules/light-clients/07-tendermint"
	ibctesting "github.com/cosmos/ibc-go/v10/testing"

	"cosmossdk.io/math"

	banktypes "github.com/cosmos/cosmos-sdk/x/bank/types"
	stakingtypes "github.com/cosmos/cosmos-sdk/x/staking/types"

	ccvtypes "github.com/cosmos/interchain-security/v7/x/ccv/types"

	"verif/harness/sim"
)

// PacketRec is a packet the harness saw leaving a chain.
type PacketRec struct {
	PathID     string
	Packet     channeltypes.Packet
	SentHeight int64 // height of the sending chain
	SentTime   time.Time
	Delivered  bool
	RecvHeight int64 // height of the receiving chain
	Ack        []byte
	AckHeight  int64
	Acked      bool
	TimedOut   bool
}

// Path is the relayer's view of one provider<->consumer pair.
type Path struct {
	ID string // consumer id
	C  *sim.Consumer

	PClient   string // provider-side client id (remembered after the provider deletes the binding)
	Malicious bool   // raw packets were injected on the consumer side (its own bookkeeping is no longer meaningful)

	P2C []*PacketRec // packets sent by the provider to this consumer (CCV and transfer)
	C2P []*PacketRec

	Blocks int
}

// F is the F-world extension: instantiated consumer chains and the relayer state.
type F struct {
	Paths    map[string]*Path
	Order    []string
	CCfg     sim.ConsumerConfig
	AutoInst bool // instantiate a consumer chain as soon as the provider launches it
}

const nRelayers = 4

func relayerNames() []string {
	out := make([]string, nRelayers)
	for i := range out {
		out[i] = fmt.Sprintf("relayer%d", i)
	}
	return out
}

// EnableConsumers turns the world into an F-world.
func (w *World) EnableConsumers(ccfg sim.ConsumerConfig) {
	ccfg.Users = append(append([]string{}, ccfg.Users...), relayerNames()...)
	w.Ext = &F{Paths: map[string]*Path{}, CCfg: ccfg, AutoInst: true}
}

func (w *World) F() *F {
	f, _ := w.Ext.(*F)
	return f
}

func init() {
	extraAppliers[KRelay] = applyRelay
	extraAppliers[KConsumerTx] = applyConsumerTx
	extraAppliers[KRawPacket] = applyRawPacket
	extraAppliers[KRawAck] = applyRawAck
	extraAppliers[KProbe] = func(w *World, a *Action, idx int) *StepResult { return &StepResult{} }
}

// instantiateLaunched creates consumer chains for consumers the provider launched (called after provider blocks).
func (w *World) instantiateLaunched() {
	f := w.F()
	if f == nil || !f.AutoInst {
		return
	}
	ctx := w.P.Ctx()
	k := w.P.PApp.ProviderKeeper
	for _, id := range w.ConsumerIDs() {
		if _, ok := f.Paths[id]; ok {
			continue
		}
		if k.GetConsumerPhase(ctx, id) != PhLaunched {
			continue
		}
		gen, ok := k.GetConsumerGenesis(ctx, id)
		if !ok || gen.PreCCV || gen.Provider.ClientState == nil {
			continue // consumers on a pre-existing connection are not instantiated by the harness
		}
		ip, err := k.GetConsumerInitializationParameters(ctx, id)
		if err != nil {
			continue
		}
		chainID, _ := k.GetConsumerChainId(ctx, id)
		c := sim.NewConsumer(id, chainID, gen, int64(ip.InitialHeight.RevisionHeight), w.Now, f.CCfg, w.Keys)
		f.Paths[id] = &Path{ID: id, C: c}
		f.Order = append(f.Order, id)
		w.Label("consumer-instantiated")
	}
}

// Consumer returns the instantiated consumer chain with the given id (nil if none).
func (w *World) Consumer(id string) *sim.Consumer {
	if f := w.F(); f != nil {
		if p, ok := f.Paths[id]; ok {
			return p.C
		}
	}
	return nil
}

func (w *World) consumerBlock(a *Action) *StepResult {
	f := w.F()
	if f == nil {
		return &StepResult{Skipped: "no consumers in this world"}
	}
	p, ok := f.Paths[a.Chain]
	if !ok {
		return &StepResult{Skipped: "consumer chain not instantiated"}
	}
	if p.C.Halted {
		return &StepResult{Skipped: "consumer chain halted"}
	}
	absent := map[string]bool{}
	for _, n := range a.Absent {
		absent[w.Keys.Get(n).Priv.PubKey().Address().String()] = true
	}
	dt := dur(a.Dt)
	if dt <= 0 {
		dt = time.Second
	}
	w.Now = w.Now.Add(dt)
	cdt := w.Now.Sub(p.C.Time)
	if cdt <= 0 {
		cdt = time.Nanosecond
	}
	var mis []abci.Misbehavior
	br := p.C.ProduceBlock(cdt, sim.Votes{Absent: absent}, mis)
	res := &StepResult{Block: br, Chain: a.Chain}
	p.Blocks++
	q := w.cqueued[a.Chain]
	w.cqueued[a.Chain] = nil
	for k := range w.cbusy[a.Chain] {
		delete(w.cbusy[a.Chain], k)
	}
	if br.Failed() {
		return res
	}
	if br.EngineHalt != "" {
		w.Label("consumer-halted-empty-set")
	}
	for i, r := range br.Resp.TxResults {
		if i >= len(q) {
			break
		}
		to := &TxOutcome{Idx: q[i].idx, Code: r.Code, Log: r.Log, Events: r.Events, Data: r.Data}
		if q[i].idx >= 0 {
			to.Action = &w.Trace[q[i].idx]
		}
		res.Txs = append(res.Txs, to)
	}
	w.observePackets(p, a.Chain, br)
	return res
}

// allEvents returns tx and block events of a block.
func allEvents(br *sim.BlockResult) []abci.Event {
	var evs []abci.Event
	for _, r := range br.Resp.TxResults {
		if r.Code == 0 {
			evs = append(evs, r.Events...)
		}
	}
	evs = append(evs, br.Resp.Events...)
	return evs
}

// observePackets records packets sent / received / acknowledged in a block of chain (provider = "").
func (w *World) observePackets(p *Path, chain string, br *sim.BlockResult) {
	w.LastRecv = nil
	evs := allEvents(br)
	sent, _ := ibctesting.ParsePacketsFromEvents(channeltypes.EventTypeSendPacket, evs)
	for _, pk := range sent {
		rec := &PacketRec{Packet: pk, SentHeight: br.Height, SentTime: br.Time}
		if chain == "" {
			// attribute to the path whose consumer-side channel is the destination: by provider channel binding
			w.attributeProviderPacket(rec)
		} else {
			p.C2P = append(p.C2P, rec)
		}
	}
	// receipts and acks written on this chain
	for _, e := range evs {
		switch e.Type {
		case channeltypes.EventTypeWriteAck:
			seq := Attr(e, channeltypes.AttributeKeySequence)
			srcPort, srcChan := Attr(e, channeltypes.AttributeKeySrcPort), Attr(e, channeltypes.AttributeKeySrcChannel)
			ackHex := Attr(e, channeltypes.AttributeKeyAckHex)
			ack := hexDecode(ackHex)
			dstChan := Attr(e, channeltypes.AttributeKeyDstChannel)
			for _, path := range w.pathsFor(chain, p) {
				list := path.C2P
				if chain != "" {
					list = path.P2C
				}
				for _, rec := range list {
					if fmt.Sprint(rec.Packet.Sequence) == seq && rec.Packet.SourcePort == srcPort && rec.Packet.SourceChannel == srcChan && rec.Packet.DestinationChannel == dstChan && rec.Ack == nil {
						rec.Ack = ack
						rec.AckHeight = br.Height
						rec.Delivered = true
						rec.RecvHeight = br.Height
						rec.PathID = path.ID
						w.LastRecv = append(w.LastRecv, rec)
					}
				}
			}
		case channeltypes.EventTypeAcknowledgePacket:
			seq := Attr(e, channeltypes.AttributeKeySequence)
			srcPort, srcChan := Attr(e, channeltypes.AttributeKeySrcPort), Attr(e, channeltypes.AttributeKeySrcChannel)
			for _, path := range w.pathsFor(chain, p) {
				list := path.P2C
				if chain != "" {
					list = path.C2P
				}
				for _, rec := range list {
					if fmt.Sprint(rec.Packet.Sequence) == seq && rec.Packet.SourcePort == srcPort && rec.Packet.SourceChannel == srcChan {
						rec.Acked = true
					}
				}
			}
		case channeltypes.EventTypeTimeoutPacket:
			seq := Attr(e, channeltypes.AttributeKeySequence)
			srcPort, srcChan := Attr(e, channeltypes.AttributeKeySrcPort), Attr(e, channeltypes.AttributeKeySrcChannel)
			for _, path := range w.pathsFor(chain, p) {
				list := path.P2C
				if chain != "" {
					list = path.C2P
				}
				for _, rec := range list {
					if fmt.Sprint(rec.Packet.Sequence) == seq && rec.Packet.SourcePort == srcPort && rec.Packet.SourceChannel == srcChan {
						rec.TimedOut = true
					}
				}
			}
		}
	}
}

func (w *World) pathsFor(chain string, p *Path) []*Path {
	if chain != "" {
		return []*Path{p}
	}
	var out []*Path
	for _, id := range w.F().Order {
		out = append(out, w.F().Paths[id])
	}
	return out
}

// attributeProviderPacket finds the path a packet sent by the provider belongs to: the one whose provider-side
// client underlies the source channel.
func (w *World) attributeProviderPacket(rec *PacketRec) {
	ctx := w.P.Ctx()
	ch, ok := w.P.PApp.IBCKeeper.ChannelKeeper.GetChannel(ctx, rec.Packet.SourcePort, rec.Packet.SourceChannel)
	if !ok || len(ch.ConnectionHops) == 0 {
		return
	}
	conn, ok := w.P.PApp.IBCKeeper.ConnectionKeeper.GetConnection(ctx, ch.ConnectionHops[0])
	if !ok {
		return
	}
	for _, id := range w.F().Order {
		path := w.F().Paths[id]
		if cid, ok := w.P.PApp.ProviderKeeper.GetConsumerClientId(ctx, id); ok && cid == conn.ClientId {
			path.P2C = append(path.P2C, rec)
			return
		}
		// after deletion the binding is gone: fall back to the client recorded when the chain was instantiated
		if path.PClient == conn.ClientId {
			path.P2C = append(path.P2C, rec)
			return
		}
	}
}

func hexDecode(h string) []byte {
	out := make([]byte, len(h)/2)
	for i := range out {
		fmt.Sscanf(h[2*i:2*i+2], "%02x", &out[i])
	}
	return out
}

// ---------------- relayer ----------------

func (w *World) freeRelayer(chain string) string {
	for _, r := range relayerNames() {
		if chain == "" {
			if !w.busy[r] {
				return r
			}
		} else if !w.cbusy[chain][r] {
			return r
		}
	}
	return ""
}

// queueOn queues a relayer tx on the provider ("") or a consumer.
func (w *World) queueOn(chain string, idx int, name string, msgs ...sdk.Msg) bool {
	r := w.freeRelayer(chain)
	if r == "" {
		return false
	}
	if chain == "" {
		w.P.Chain.QueueTx(name, r, msgs...)
		w.busy[r] = true
		w.queued = append(w.queued, queuedTx{idx: idx, acc: r})
		return true
	}
	c := w.Consumer(chain)
	c.Chain.QueueTx(name, r, msgs...)
	if w.cbusy[chain] == nil {
		w.cbusy[chain] = map[string]bool{}
	}
	w.cbusy[chain][r] = true
	w.cqueued[chain] = append(w.cqueued[chain], queuedTx{idx: idx, acc: r})
	return true
}

func (w *World) relayerAddr(chain string) string {
	r := w.freeRelayer(chain)
	if r == "" {
		r = "relayer0"
	}
	return sim.NewAccount(r).Bech32()
}

// chainOf returns the driver of the provider ("") or a consumer.
func (w *World) chainOf(chain string) *sim.Chain {
	if chain == "" {
		return w.P.Chain
	}
	if c := w.Consumer(chain); c != nil {
		return c.Chain
	}
	return nil
}

// clientIDs returns the provider-side and consumer-side client ids of a path.
func (w *World) clientIDs(p *Path) (pClient, cClient string) {
	if cid, ok := w.P.PApp.ProviderKeeper.GetConsumerClientId(w.P.Ctx(), p.ID); ok {
		p.PClient = cid
	}
	cc, _ := p.C.CApp.ConsumerKeeper.GetProviderClientID(p.C.Ctx())
	return p.PClient, cc
}

// updateClientMsg builds MsgUpdateClient for client `clientID` on target with the latest header of source.
func (w *World) updateClientMsg(target, source *sim.Chain, clientID, signer string) (sdk.Msg, clienttypes.Height, error) {
	latest := target.App.GetIBCKeeper().ClientKeeper.GetClientLatestHeight(target.Ctx(), clientID)
	if latest.IsZero() {
		return nil, clienttypes.Height{}, fmt.Errorf("client %s not found", clientID)
	}
	if source.Height < 1 || source.Headers[source.Height] == nil {
		return nil, clienttypes.Height{}, fmt.Errorf("source has no header")
	}
	if _, ok := source.Headers[int64(latest.RevisionHeight)]; !ok {
		return nil, clienttypes.Height{}, fmt.Errorf("no trusted header record at %s", latest)
	}
	h, err := source.SignedHeader(source.Height, latest)
	if err != nil {
		return nil, clienttypes.Height{}, err
	}
	msg, err := clienttypes.NewMsgUpdateClient(clientID, h, signer)
	if err != nil {
		return nil, clienttypes.Height{}, err
	}
	return msg, clienttypes.NewHeight(clienttypes.ParseChainID(source.ChainID), uint64(source.Height)), nil
}

func prefixOf(c *sim.Chain) commitmenttypes.MerklePrefix {
	return commitmenttypes.NewMerklePrefix(c.App.GetIBCKeeper().ConnectionKeeper.GetCommitmentPrefix().Bytes())
}

// proof returns a proof of key on source as of version Height-1 (verifiable against header Height).
func proofOf(source *sim.Chain, key []byte) ([]byte, clienttypes.Height, error) {
	if source.Height < 2 {
		return nil, clienttypes.Height{}, fmt.Errorf("source too young for proofs")
	}
	// what is proven is the state one block back (its app hash is in the latest header); a relayer waits until
	// that state shows what it wants to prove
	if !bytes.Equal(source.ValueAt(key, source.Height-1), source.ValueAt(key, source.Height)) {
		return nil, clienttypes.Height{}, fmt.Errorf("not provable yet (changed in the latest block)")
	}
	return source.QueryProofAt(key, source.Height-1)
}

func applyRelay(w *World, a *Action, idx int) *StepResult {
	f := w.F()
	if f == nil || a.Relay == nil {
		return &StepResult{Skipped: "no relayer in this world"}
	}
	p, ok := f.Paths[a.Consumer]
	if !ok {
		return &StepResult{Skipped: "consumer chain not instantiated"}
	}
	if err := w.relay(p, a, idx); err != nil {
		return &StepResult{Skipped: "relay: " + err.Error()}
	}
	return &StepResult{}
}

// connection/channel discovery from chain state

func findConn(c *sim.Chain, clientID string) (string, connectiontypes.ConnectionEnd, bool) {
	conns := c.App.GetIBCKeeper().ConnectionKeeper.GetAllConnections(c.Ctx())
	for _, ic := range conns {
		if ic.ClientId == clientID {
			return ic.Id, connectiontypes.ConnectionEnd{ClientId: ic.ClientId, Versions: ic.Versions, State: ic.State, Counterparty: ic.Counterparty, DelayPeriod: ic.DelayPeriod}, true
		}
	}
	return "", connectiontypes.ConnectionEnd{}, false
}

func findChan(c *sim.Chain, port, connID string) (string, channeltypes.Channel, bool) {
	chans := c.App.GetIBCKeeper().ChannelKeeper.GetAllChannels(c.Ctx())
	// prefer the most advanced channel on that connection and port
	best := -1
	var bid string
	var bch channeltypes.Channel
	for _, ic := range chans {
		if ic.PortId != port || len(ic.ConnectionHops) == 0 || ic.ConnectionHops[0] != connID {
			continue
		}
		rank := int(ic.State)
		if ic.State == channeltypes.CLOSED {
			rank = 0
		}
		if rank > best {
			best = rank
			bid = ic.ChannelId
			bch = channeltypes.Channel{State: ic.State, Ordering: ic.Ordering, Counterparty: ic.Counterparty, ConnectionHops: ic.ConnectionHops, Version: ic.Version}
		}
	}
	return bid, bch, best >= 0
}

// relay performs one relayer operation (queues one tx on the target chain).
func (w *World) relay(p *Path, a *Action, idx int) error {
	op := a.Relay.Op
	P, C := w.P.Chain, p.C.Chain
	pClient, cClient := w.clientIDs(p)
	if pClient == "" || cClient == "" {
		return fmt.Errorf("clients unknown")
	}
	if st := P.App.GetIBCKeeper().ClientKeeper.GetClientStatus(P.Ctx(), pClient); st != ibcexported.Active {
		return fmt.Errorf("provider-side client is %s", st)
	}
	if st := C.App.GetIBCKeeper().ClientKeeper.GetClientStatus(C.Ctx(), cClient); st != ibcexported.Active && op != "timeout" {
		return fmt.Errorf("consumer-side client is %s", st)
	}
	name := fmt.Sprintf("%d:relay:%s", idx, op)
	switch op {
	case "update_client":
		if a.Relay.Dir == "p2c" { // update the consumer's client of the provider
			msg, _, err := w.updateClientMsg(C, P, cClient, w.relayerAddr(p.ID))
			if err != nil {
				return err
			}
			if !w.queueOn(p.ID, idx, name, msg) {
				return fmt.Errorf("no free relayer")
			}
			return nil
		}
		msg, _, err := w.updateClientMsg(P, C, pClient, w.relayerAddr(""))
		if err != nil {
			return err
		}
		if !w.queueOn("", idx, name, msg) {
			return fmt.Errorf("no free relayer")
		}
		return nil
	case "handshake":
		return w.relayHandshake(p, a, idx, name)
	case "recv":
		return w.relayRecv(p, a, idx, name)
	case "ack":
		return w.relayAck(p, a, idx, name)
	case "timeout":
		return w.relayTimeout(p, a, idx, name)
	case "race":
		return w.relayRace(p, a, idx, name)
	}
	return fmt.Errorf("unknown relay op %q", op)
}

// relayHandshake advances the connection / CCV channel / transfer channel handshake by one step.
func (w *World) relayHandshake(p *Path, a *Action, idx int, name string) error {
	P, C := w.P.Chain, p.C.Chain
	pClient, cClient := w.clientIDs(p)
	cConnID, cConn, cHas := findConn(C, cClient)
	pConnID, pConn, pHas := findConn(P, pClient)
	sgnC, sgnP := w.relayerAddr(p.ID), w.relayerAddr("")
	switch {
	case !cHas:
		msg := connectiontypes.NewMsgConnectionOpenInit(cClient, pClient, prefixOf(P), ibctesting.DefaultOpenInitVersion, 0, sgnC)
		return w.must(w.queueOn(p.ID, idx, name+":conn_init", msg))
	case !pHas:
		upd, _, err := w.updateClientMsg(P, C, pClient, sgnP)
		if err != nil {
			return err
		}
		proof, ph, err := proofOf(C, host.ConnectionKey(cConnID))
		if err != nil {
			return err
		}
		msg := connectiontypes.NewMsgConnectionOpenTry(pClient, cConnID, cClient, prefixOf(C), []*connectiontypes.Version{ibctesting.ConnectionVersion}, 0, proof, ph, sgnP)
		return w.must(w.queueOn("", idx, name+":conn_try", upd, msg))
	case cConn.State == connectiontypes.INIT && pConn.State == connectiontypes.TRYOPEN:
		upd, _, err := w.updateClientMsg(C, P, cClient, sgnC)
		if err != nil {
			return err
		}
		proof, ph, err := proofOf(P, host.ConnectionKey(pConnID))
		if err != nil {
			return err
		}
		msg := connectiontypes.NewMsgConnectionOpenAck(cConnID, pConnID, proof, ph, ibctesting.ConnectionVersion, sgnC)
		return w.must(w.queueOn(p.ID, idx, name+":conn_ack", upd, msg))
	case cConn.State == connectiontypes.OPEN && pConn.State == connectiontypes.TRYOPEN:
		upd, _, err := w.updateClientMsg(P, C, pClient, sgnP)
		if err != nil {
			return err
		}
		proof, ph, err := proofOf(C, host.ConnectionKey(cConnID))
		if err != nil {
			return err
		}
		msg := connectiontypes.NewMsgConnectionOpenConfirm(pConnID, proof, ph, sgnP)
		return w.must(w.queueOn("", idx, name+":conn_confirm", upd, msg))
	}
	if cConn.State != connectiontypes.OPEN || pConn.State != connectiontypes.OPEN {
		return fmt.Errorf("connection in unexpected state %s/%s", cConn.State, pConn.State)
	}
	// CCV channel
	if err, done := w.channelStep(p, idx, name, ccvtypes.ConsumerPortID, ccvtypes.ProviderPortID, channeltypes.ORDERED, ccvtypes.Version, cConnID, pConnID, true); !done {
		return err
	}
	// transfer channel (initiated by the consumer module in OnChanOpenAck)
	err, _ := w.channelStep(p, idx, name, "transfer", "transfer", channeltypes.UNORDERED, "ics20-1", cConnID, pConnID, false)
	return err
}

// relayRace advances one of possibly several concurrent CCV channel handshakes between a consumer and the
// provider: Arg "init" opens one more handshake from the consumer side; otherwise all steps that are currently
// possible on any pair of channel ends are enumerated and the K-th is performed, so interleavings such as
// try, try, ack, ack, confirm, confirm can be generated.
func (w *World) relayRace(p *Path, a *Action, idx int, name string) error {
	P, C := w.P.Chain, p.C.Chain
	pClient, cClient := w.clientIDs(p)
	cConnID, cConn, cHas := findConn(C, cClient)
	pConnID, pConn, pHas := findConn(P, pClient)
	if !cHas || !pHas || cConn.State != connectiontypes.OPEN || pConn.State != connectiontypes.OPEN {
		return fmt.Errorf("connection not open")
	}
	sgnC, sgnP := w.relayerAddr(p.ID), w.relayerAddr("")
	if a.Relay.Arg == "init" {
		msg := channeltypes.NewMsgChannelOpenInit(ccvtypes.ConsumerPortID, ccvtypes.Version, channeltypes.ORDERED, []string{cConnID}, ccvtypes.ProviderPortID, sgnC)
		return w.must(w.queueOn(p.ID, idx, name+":chan_init", msg))
	}
	type end struct {
		id string
		ch channeltypes.IdentifiedChannel
	}
	var cEnds, pEnds []end
	for _, ic := range C.App.GetIBCKeeper().ChannelKeeper.GetAllChannels(C.Ctx()) {
		if ic.PortId == ccvtypes.ConsumerPortID && len(ic.ConnectionHops) == 1 && ic.ConnectionHops[0] == cConnID {
			cEnds = append(cEnds, end{ic.ChannelId, ic})
		}
	}
	for _, ic := range P.App.GetIBCKeeper().ChannelKeeper.GetAllChannels(P.Ctx()) {
		if ic.PortId == ccvtypes.ProviderPortID && len(ic.ConnectionHops) == 1 && ic.ConnectionHops[0] == pConnID {
			pEnds = append(pEnds, end{ic.ChannelId, ic})
		}
	}
	type step struct {
		kind string
		c, p end
	}
	var steps []step
	for _, ce := range cEnds {
		var pe *end
		for i := range pEnds {
			if pEnds[i].ch.Counterparty.ChannelId == ce.id {
				pe = &pEnds[i]
			}
		}
		switch {
		case ce.ch.State == channeltypes.INIT && pe == nil:
			steps = append(steps, step{"try", ce, end{}})
		case ce.ch.State == channeltypes.INIT && pe.ch.State == channeltypes.TRYOPEN:
			steps = append(steps, step{"ack", ce, *pe})
		case ce.ch.State == channeltypes.OPEN && pe != nil && pe.ch.State == channeltypes.TRYOPEN:
			steps = append(steps, step{"confirm", ce, *pe})
		}
	}
	if len(steps) == 0 {
		return fmt.Errorf("no handshake step possible")
	}
	k := a.Relay.K
	if k < 0 {
		k = -k
	}
	st := steps[k%len(steps)]
	switch st.kind {
	case "try":
		upd, _, err := w.updateClientMsg(P, C, pClient, sgnP)
		if err != nil {
			return err
		}
		proof, ph, err := proofOf(C, host.ChannelKey(ccvtypes.ConsumerPortID, st.c.id))
		if err != nil {
			return err
		}
		msg := channeltypes.NewMsgChannelOpenTry(ccvtypes.ProviderPortID, ccvtypes.Version, channeltypes.ORDERED, []string{pConnID}, ccvtypes.ConsumerPortID, st.c.id, st.c.ch.Version, proof, ph, sgnP)
		return w.must(w.queueOn("", idx, name+":chan_try:"+st.c.id, upd, msg))
	case "ack":
		upd, _, err := w.updateClientMsg(C, P, cClient, sgnC)
		if err != nil {
			return err
		}
		proof, ph, err := proofOf(P, host.ChannelKey(ccvtypes.ProviderPortID, st.p.id))
		if err != nil {
			return err
		}
		msg := channeltypes.NewMsgChannelOpenAck(ccvtypes.ConsumerPortID, st.c.id, st.p.id, st.p.ch.Version, proof, ph, sgnC)
		return w.must(w.queueOn(p.ID, idx, name+":chan_ack:"+st.c.id, upd, msg))
	default:
		upd, _, err := w.updateClientMsg(P, C, pClient, sgnP)
		if err != nil {
			return err
		}
		proof, ph, err := proofOf(C, host.ChannelKey(ccvtypes.ConsumerPortID, st.c.id))
		if err != nil {
			return err
		}
		msg := channeltypes.NewMsgChannelOpenConfirm(ccvtypes.ProviderPortID, st.p.id, proof, ph, sgnP)
		return w.must(w.queueOn("", idx, name+":chan_confirm:"+st.p.id, upd, msg))
	}
}

func (w *World) must(ok bool) error {
	if !ok {
		return fmt.Errorf("no free relayer")
	}
	return nil
}

// channelStep advances one channel handshake; done=true if the channel is open on both ends.
func (w *World) channelStep(p *Path, idx int, name, cPort, pPort string, order channeltypes.Order, version, cConnID, pConnID string, initByRelayer bool) (error, bool) {
	P, C := w.P.Chain, p.C.Chain
	pClient, cClient := w.clientIDs(p)
	sgnC, sgnP := w.relayerAddr(p.ID), w.relayerAddr("")
	cChanID, cChan, cHas := findChan(C, cPort, cConnID)
	pChanID, pChan, pHas := findChan(P, pPort, pConnID)
	switch {
	case !cHas:
		if !initByRelayer {
			return fmt.Errorf("%s channel not initiated yet", cPort), false
		}
		msg := channeltypes.NewMsgChannelOpenInit(cPort, version, order, []string{cConnID}, pPort, sgnC)
		return w.must(w.queueOn(p.ID, idx, name+":chan_init", msg)), false
	case cChan.State == channeltypes.INIT && (!pHas || pChan.State == channeltypes.CLOSED):
		upd, _, err := w.updateClientMsg(P, C, pClient, sgnP)
		if err != nil {
			return err, false
		}
		proof, ph, err := proofOf(C, host.ChannelKey(cPort, cChanID))
		if err != nil {
			return err, false
		}
		msg := channeltypes.NewMsgChannelOpenTry(pPort, version, order, []string{pConnID}, cPort, cChanID, cChan.Version, proof, ph, sgnP)
		return w.must(w.queueOn("", idx, name+":chan_try:"+cPort, upd, msg)), false
	case cChan.State == channeltypes.INIT && pChan.State == channeltypes.TRYOPEN:
		upd, _, err := w.updateClientMsg(C, P, cClient, sgnC)
		if err != nil {
			return err, false
		}
		proof, ph, err := proofOf(P, host.ChannelKey(pPort, pChanID))
		if err != nil {
			return err, false
		}
		msg := channeltypes.NewMsgChannelOpenAck(cPort, cChanID, pChanID, pChan.Version, proof, ph, sgnC)
		return w.must(w.queueOn(p.ID, idx, name+":chan_ack:"+cPort, upd, msg)), false
	case cChan.State == channeltypes.OPEN && pChan.State == channeltypes.TRYOPEN:
		upd, _, err := w.updateClientMsg(P, C, pClient, sgnP)
		if err != nil {
			return err, false
		}
		proof, ph, err := proofOf(C, host.ChannelKey(cPort, cChanID))
		if err != nil {
			return err, false
		}
		msg := channeltypes.NewMsgChannelOpenConfirm(pPort, pChanID, proof, ph, sgnP)
		return w.must(w.queueOn("", idx, name+":chan_confirm:"+cPort, upd, msg)), false
	case cChan.State == channeltypes.OPEN && pChan.State == channeltypes.OPEN:
		return nil, true
	}
	return fmt.Errorf("%s channel in state %s/%s", cPort, cChan.State, pChan.State), false
}

// pendingRecv returns packets not yet delivered, in sequence order per channel.
func pendingRecv(list []*PacketRec) []*PacketRec {
	var out []*PacketRec
	for _, r := range list {
		if !r.Delivered && !r.TimedOut {
			out = append(out, r)
		}
	}
	sort.SliceStable(out, func(i, j int) bool {
		if out[i].Packet.SourceChannel != out[j].Packet.SourceChannel {
			return out[i].Packet.SourceChannel < out[j].Packet.SourceChannel
		}
		return out[i].Packet.Sequence < out[j].Packet.Sequence
	})
	return out
}

func (w *World) relayRecv(p *Path, a *Action, idx int, name string) error {
	P, C := w.P.Chain, p.C.Chain
	pClient, cClient := w.clientIDs(p)
	k := a.Relay.K
	if k <= 0 {
		k = 1
	}
	var src, dst *sim.Chain
	var list []*PacketRec
	var client, dstName string
	if a.Relay.Dir == "p2c" {
		src, dst, list, client, dstName = P, C, p.P2C, cClient, p.ID
	} else {
		src, dst, list, client, dstName = C, P, p.C2P, pClient, ""
	}
	sgn := w.relayerAddr(dstName)
	upd, _, err := w.updateClientMsg(dst, src, client, sgn)
	if err != nil {
		return err
	}
	msgs := []sdk.Msg{upd}
	n := 0
	for _, rec := range pendingRecv(list) {
		if n >= k {
			break
		}
		if rec.SentHeight > src.Height-1 {
			break // commitment not provable yet
		}
		if a.Relay.Arg != "" && rec.Packet.SourcePort != a.Relay.Arg {
			continue
		}
		proof, ph, err := proofOf(src, host.PacketCommitmentKey(rec.Packet.SourcePort, rec.Packet.SourceChannel, rec.Packet.Sequence))
		if err != nil {
			return err
		}
		msgs = append(msgs, channeltypes.NewMsgRecvPacket(rec.Packet, proof, ph, sgn))
		n++
	}
	if n == 0 {
		return fmt.Errorf("nothing to deliver")
	}
	return w.must(w.queueOn(dstName, idx, name, msgs...))
}

func (w *World) relayAck(p *Path, a *Action, idx int, name string) error {
	P, C := w.P.Chain, p.C.Chain
	pClient, cClient := w.clientIDs(p)
	k := a.Relay.K
	if k <= 0 {
		k = 1
	}
	// dir names the direction of the original packet; the ack travels back
	var ackSrc, ackDst *sim.Chain
	var list []*PacketRec
	var client, dstName string
	if a.Relay.Dir == "p2c" {
		ackSrc, ackDst, list, client, dstName = C, P, p.P2C, pClient, ""
	} else {
		ackSrc, ackDst, list, client, dstName = P, C, p.C2P, cClient, p.ID
	}
	sgn := w.relayerAddr(dstName)
	upd, _, err := w.updateClientMsg(ackDst, ackSrc, client, sgn)
	if err != nil {
		return err
	}
	msgs := []sdk.Msg{upd}
	n := 0
	for _, rec := range list {
		if n >= k {
			break
		}
		if rec.Ack == nil || rec.Acked || rec.AckHeight > ackSrc.Height-1 {
			continue
		}
		proof, ph, err := proofOf(ackSrc, host.PacketAcknowledgementKey(rec.Packet.DestinationPort, rec.Packet.DestinationChannel, rec.Packet.Sequence))
		if err != nil {
			return err
		}
		msgs = append(msgs, channeltypes.NewMsgAcknowledgement(rec.Packet, rec.Ack, proof, ph, sgn))
		n++
	}
	if n == 0 {
		return fmt.Errorf("nothing to acknowledge")
	}
	return w.must(w.queueOn(dstName, idx, name, msgs...))
}

func (w *World) relayTimeout(p *Path, a *Action, idx int, name string) error {
	P, C := w.P.Chain, p.C.Chain
	pClient, cClient := w.clientIDs(p)
	var src, dst *sim.Chain
	var list []*PacketRec
	var client, srcName string
	if a.Relay.Dir == "p2c" {
		src, dst, list, client, srcName = P, C, p.P2C, pClient, ""
	} else {
		src, dst, list, client, srcName = C, P, p.C2P, cClient, p.ID
	}
	sgn := w.relayerAddr(srcName)
	// the timeout is proven on the sender with the receiver's state: update the sender's client of the receiver
	upd, _, err := w.updateClientMsg(src, dst, client, sgn)
	if err != nil {
		return err
	}
	if dst.Height < 2 {
		return fmt.Errorf("receiver too young")
	}
	k := a.Relay.K
	if k <= 0 {
		k = 1
	}
	msgs := []sdk.Msg{upd}
	n := 0
	for _, rec := range pendingRecv(list) {
		if n >= k {
			break
		}
		// timed out w.r.t. the receiver's time at the proof height
		proofTime := dst.Headers[dst.Height].Header.Time
		if rec.Packet.TimeoutTimestamp == 0 || uint64(proofTime.UnixNano()) < rec.Packet.TimeoutTimestamp {
			continue
		}
		ch, ok := dst.App.GetIBCKeeper().ChannelKeeper.GetChannel(dst.Ctx(), rec.Packet.DestinationPort, rec.Packet.DestinationChannel)
		if !ok {
			continue
		}
		var key []byte
		if ch.Ordering == channeltypes.ORDERED {
			key = host.NextSequenceRecvKey(rec.Packet.DestinationPort, rec.Packet.DestinationChannel)
		} else {
			key = host.PacketReceiptKey(rec.Packet.DestinationPort, rec.Packet.DestinationChannel, rec.Packet.Sequence)
		}
		proof, ph, err := proofOf(dst, key)
		if err != nil {
			return err
		}
		nextSeq := rec.Packet.Sequence
		if ch.Ordering == channeltypes.ORDERED {
			// next sequence receive as of the proven version
			nextSeq = w.nextSeqRecvAt(dst, rec.Packet.DestinationPort, rec.Packet.DestinationChannel)
		}
		msgs = append(msgs, channeltypes.NewMsgTimeout(rec.Packet, nextSeq, proof, ph, sgn))
		n++
	}
	if n == 0 {
		return fmt.Errorf("nothing timed out")
	}
	return w.must(w.queueOn(srcName, idx, name, msgs...))
}

// nextSeqRecvAt reads NextSequenceRecv of the receiver as of version Height-1 (the proven version).
func (w *World) nextSeqRecvAt(c *sim.Chain, port, channel string) uint64 {
	res, err := c.App.Query(context.Background(), &abci.RequestQuery{
		Path:   "store/ibc/key",
		Height: c.Height - 1,
		Data:   host.NextSequenceRecvKey(port, channel),
	})
	if err != nil || len(res.Value) != 8 {
		seq, _ := c.App.GetIBCKeeper().ChannelKeeper.GetNextSequenceRecv(c.Ctx(), port, channel)
		return seq
	}
	return sdk.BigEndianToUint64(res.Value)
}


// applyConsumerTx queues a fee-paying bank send on a consumer chain.
func applyConsumerTx(w *World, a *Action, idx int) *StepResult {
	c := w.Consumer(a.Chain)
	if c == nil {
		return &StepResult{Skipped: "consumer chain not instantiated"}
	}
	if _, ok := c.Accounts[a.Sender]; !ok {
		return &StepResult{Skipped: "unknown consumer account"}
	}
	if w.cbusy[a.Chain] == nil {
		w.cbusy[a.Chain] = map[string]bool{}
	}
	if w.cbusy[a.Chain][a.Sender] {
		return &StepResult{Skipped: "signer busy"}
	}
	fee, err := sdk.ParseCoinsNormalized(a.Fee)
	if err != nil {
		return &StepResult{Skipped: "bad fee"}
	}
	to := sim.NewAccount("cuser-sink")
	msg := banktypes.NewMsgSend(c.Accounts[a.Sender].Addr(), to.Addr(), sdk.NewCoins(sdk.NewCoin(sim.BondDenom, math.NewInt(a.Amount))))
	c.Chain.QueueTxFee(fmt.Sprintf("%d:consumer_tx", idx), a.Sender, fee, msg)
	w.cbusy[a.Chain][a.Sender] = true
	w.cqueued[a.Chain] = append(w.cqueued[a.Chain], queuedTx{idx: idx, acc: a.Sender})
	return &StepResult{}
}

// applyRawPacket lets the consumer chain (arbitrary code from the provider's point of view) emit a CCV packet
// with chosen contents on its established CCV channel.
func applyRawPacket(w *World, a *Action, idx int) *StepResult {
	f := w.F()
	if f == nil {
		return &StepResult{Skipped: "no consumers"}
	}
	p, ok := f.Paths[a.Chain]
	if !ok || a.Pkt == nil {
		return &StepResult{Skipped: "consumer chain not instantiated"}
	}
	C := p.C
	ctx := C.Ctx()
	chID, ok := C.CApp.ConsumerKeeper.GetProviderChannel(ctx)
	if !ok {
		return &StepResult{Skipped: "no CCV channel on the consumer"}
	}
	var data []byte
	if a.Pkt.Raw != "" {
		data = []byte(a.Pkt.Raw)
	} else {
		inf := stakingtypes.Infraction_INFRACTION_DOWNTIME
		switch a.Pkt.Infraction {
		case "double_sign":
			inf = stakingtypes.Infraction_INFRACTION_DOUBLE_SIGN
		case "unspecified":
			inf = stakingtypes.Infraction_INFRACTION_UNSPECIFIED
		}
		addr := w.Keys.Get(a.Pkt.AddrKey).Addr()
		sp := ccvtypes.NewSlashPacketData(abci.Validator{Address: addr, Power: a.Pkt.Power}, a.Pkt.VscID, inf)
		cp := ccvtypes.ConsumerPacketData{Type: ccvtypes.SlashPacket, Data: &ccvtypes.ConsumerPacketData_SlashPacketData{SlashPacketData: sp}}
		data = cp.GetBytes()
	}
	timeout := uint64(w.Now.Add(28 * 24 * time.Hour).UnixNano())
	seq, err := C.CApp.IBCKeeper.ChannelKeeper.SendPacket(ctx, ccvtypes.ConsumerPortID, chID, clienttypes.Height{}, timeout, data)
	if err != nil {
		return &StepResult{Skipped: "raw send failed: " + err.Error()}
	}
	ch, _ := C.CApp.IBCKeeper.ChannelKeeper.GetChannel(ctx, ccvtypes.ConsumerPortID, chID)
	pk := channeltypes.NewPacket(data, seq, ccvtypes.ConsumerPortID, chID, ch.Counterparty.PortId, ch.Counterparty.ChannelId, clienttypes.Height{}, timeout)
	p.C2P = append(p.C2P, &PacketRec{Packet: pk, SentHeight: C.Height + 1, SentTime: w.Now})
	p.Malicious = true
	w.Label("raw-packet")
	return &StepResult{}
}

// applyRawAck lets the consumer chain (arbitrary code from the provider's point of view) take the next
// validator-set packet off its CCV channel and answer it with an error acknowledgement: it advances its receive
// sequence and commits the acknowledgement in its own IBC store; an honest relayer then carries the
// acknowledgement, with a genuine proof, to the provider.
func applyRawAck(w *World, a *Action, idx int) *StepResult {
	f := w.F()
	if f == nil {
		return &StepResult{Skipped: "no consumers"}
	}
	p, ok := f.Paths[a.Chain]
	if !ok || p.C.Halted {
		return &StepResult{Skipped: "consumer chain not instantiated"}
	}
	C := p.C
	ctx := C.Ctx()
	ck := C.CApp.IBCKeeper.ChannelKeeper
	for _, rec := range pendingRecv(p.P2C) {
		if rec.Packet.SourcePort != ccvtypes.ProviderPortID {
			continue
		}
		port, ch := rec.Packet.DestinationPort, rec.Packet.DestinationChannel
		next, found := ck.GetNextSequenceRecv(ctx, port, ch)
		if !found || next != rec.Packet.Sequence {
			return &StepResult{Skipped: "next validator-set packet is not the next in sequence on the consumer"}
		}
		if rec.SentHeight > w.P.Height {
			return &StepResult{Skipped: "packet not committed on the provider yet"}
		}
		ack := channeltypes.NewErrorAcknowledgement(fmt.Errorf("byzantine consumer refuses the validator set"))
		bz := ack.Acknowledgement()
		ck.SetNextSequenceRecv(ctx, port, ch, next+1)
		ck.SetPacketAcknowledgement(ctx, port, ch, rec.Packet.Sequence, channeltypes.CommitAcknowledgement(bz))
		rec.Ack, rec.AckHeight, rec.Delivered, rec.RecvHeight, rec.PathID = bz, C.Height+1, true, C.Height+1, p.ID
		p.Malicious = true
		w.Label("raw-error-ack")
		return &StepResult{}
	}
	return &StepResult{Skipped: "no undelivered validator-set packet"}
}

// EnableConsumersLike turns w into an F-world with the same consumer configuration as other.
func (w *World) EnableConsumersLike(other *World) {
	of := other.F()
	cc := of.CCfg
	w.Ext = &F{Paths: map[string]*Path{}, CCfg: cc, AutoInst: of.AutoInst}
}

// ProviderVoucherDenom returns the IBC denom under which baseDenom of consumer id arrives on the provider
// ("" if the transfer channel does not exist yet).
func (w *World) ProviderVoucherDenom(id, baseDenom string) string {
	f := w.F()
	if f == nil {
		return ""
	}
	p, ok := f.Paths[id]
	if !ok {
		return ""
	}
	pClient, _ := w.clientIDs(p)
	connID, _, ok := findConn(w.P.Chain, pClient)
	if !ok {
		return ""
	}
	chID, ch, ok := findChan(w.P.Chain, transfertypes.PortID, connID)
	if !ok || ch.State != channeltypes.OPEN {
		return ""
	}
	return transfertypes.NewDenom(baseDenom, transfertypes.NewHop(transfertypes.PortID, chID)).IBCDenom()
}

// ChainIDOfClient returns the chain id a 07-tendermint client state tracks ("" otherwise).
func ChainIDOfClient(cs ibcexported.ClientState) string {
	if tm, ok := cs.(*ibctm.ClientState); ok {
		return tm.ChainId
	}
	return ""
}
