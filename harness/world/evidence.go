package world

import (
	"fmt"
	"time"

	"github.com/cometbft/cometbft/crypto/tmhash"
	cmtproto "github.com/cometbft/cometbft/proto/tendermint/types"
	cmtprotoversion "github.com/cometbft/cometbft/proto/tendermint/version"
	cmttypes "github.com/cometbft/cometbft/types"
	cmtversion "github.com/cometbft/cometbft/version"

	sdk "github.com/cosmos/cosmos-sdk/types"

	clienttypes "github.com/cosmos/ibc-go/v10/modules/core/02-client/types"
	ibctm "github.com/cosmos/ibc-go/v10/modules/light-clients/07-tendermint"
	ibctesting "github.com/cosmos/ibc-go/v10/testing"

	providertypes "github.com/cosmos/interchain-security/v7/x/ccv/provider/types"

	"verif/harness/sim"
)

// Double-voting mutations (named; "" = valid evidence).
var DoubleVoteMutations = []string{
	"", "other-chain-id", "bad-signature", "key-mismatch", "same-block-id", "diff-height", "diff-round", "diff-type",
	"diff-validator", "below-min-height", "unknown-consumer", "swapped-order", "wrong-key-signs", "header-lacks-validator",
}

func init() {
	extraBuilders[KDoubleVote] = buildDoubleVote
	extraBuilders[KMisbehaviour] = buildMisbehaviour
}

func blockID(seed string) cmttypes.BlockID {
	return ibctesting.MakeBlockID(tmhash.Sum([]byte("blk"+seed)), 7, tmhash.Sum([]byte("parts"+seed)))
}

func signedVote(key *sim.ConsKey, addrOf *sim.ConsKey, chainID string, height int64, round int32, typ cmtproto.SignedMsgType, bid cmttypes.BlockID, ts time.Time) *cmttypes.Vote {
	v := &cmttypes.Vote{
		Type:             typ,
		Height:           height,
		Round:            round,
		BlockID:          bid,
		Timestamp:        ts,
		ValidatorAddress: addrOf.Priv.PubKey().Address(),
		ValidatorIndex:   0,
	}
	p := v.ToProto()
	if err := key.PV.SignVote(chainID, p); err != nil {
		panic(sim.HarnessError{Msg: "sign vote: " + err.Error()})
	}
	v.Signature = p.Signature
	return v
}

// buildDoubleVote builds MsgSubmitConsumerDoubleVoting: valid evidence signed with a.Ev.KeyName for the
// consumer's chain id, then the named mutation.
func buildDoubleVote(w *World, a *Action) ([]sdk.Msg, string, error) {
	ev := a.Ev
	key := w.Keys.Get(ev.KeyName)
	consumerID := a.Consumer
	chainID, _ := w.P.PApp.ProviderKeeper.GetConsumerChainId(w.P.Ctx(), consumerID)
	if chainID == "" {
		chainID = "unknown-chain"
	}
	height := ev.Height
	if height <= 0 {
		height = 10
	}
	signChain := chainID
	ts := w.P.Time
	bidA, bidB := blockID("a"+ev.KeyName), blockID("b"+ev.KeyName)
	hA, hB := height, height
	rA, rB := int32(1), int32(1)
	tA, tB := cmtproto.PrecommitType, cmtproto.PrecommitType
	signerA, signerB := key, key
	addrA, addrB := key, key
	headerKey := key // pubkey listed in the header's validator set under the vote's address

	switch ev.Mutation {
	case "other-chain-id":
		signChain = ev.OtherChain
		if signChain == "" || signChain == chainID {
			signChain = w.P.ChainID
		}
	case "same-block-id":
		bidB = bidA
	case "diff-height":
		hB = height + 1
	case "diff-round":
		rB = 2
	case "diff-type":
		tB = cmtproto.PrevoteType
	case "diff-validator":
		other := w.Keys.Get(ev.KeyName + "-other")
		signerB, addrB = other, other
	case "wrong-key-signs":
		other := w.Keys.Get(ev.KeyName + "-forger")
		signerA, signerB = other, other
	case "key-mismatch":
		headerKey = w.Keys.Get(ev.KeyName + "-forger")
		signerA, signerB = headerKey, headerKey
	case "unknown-consumer":
		consumerID = "9999"
	}
	vA := signedVote(signerA, addrA, signChain, hA, rA, tA, bidA, ts)
	vB := signedVote(signerB, addrB, signChain, hB, rB, tB, bidB, ts)
	if ev.Mutation == "bad-signature" {
		vB.Signature = append([]byte{}, vB.Signature...)
		vB.Signature[5] ^= 0x40
	}
	// order by block id key as CometBFT does
	first, second := vA, vB
	if vA.BlockID.Key() > vB.BlockID.Key() {
		first, second = vB, vA
	}
	if ev.Mutation == "swapped-order" {
		first, second = second, first
	}
	// infraction block header: only its validator set is used (to find the public key of the voter)
	val := &cmttypes.Validator{Address: key.Priv.PubKey().Address(), PubKey: headerKey.Priv.PubKey(), VotingPower: 10}
	filler := w.Keys.Get("evidence-filler")
	vals := []*cmttypes.Validator{val, cmttypes.NewValidator(filler.Priv.PubKey(), 5)}
	if ev.Mutation == "header-lacks-validator" {
		vals = vals[1:]
	}
	valSet := &cmttypes.ValidatorSet{Validators: vals, Proposer: vals[0]}
	vsProto, err := valSet.ToProto()
	if err != nil {
		return nil, "", err
	}
	hdr := cmttypes.Header{
		Version: cmtprotoversion.Consensus{Block: cmtversion.BlockProtocol, App: 2}, ChainID: chainID, Height: height, Time: ts,
		ValidatorsHash: valSet.Hash(), NextValidatorsHash: valSet.Hash(), ProposerAddress: vals[0].Address,
		LastBlockID: ibctesting.MakeBlockID(make([]byte, tmhash.Size), 10_000, make([]byte, tmhash.Size)),
		LastCommitHash: tmhash.Sum([]byte("lc")), DataHash: tmhash.Sum([]byte("d")), ConsensusHash: tmhash.Sum([]byte("c")),
		AppHash: tmhash.Sum([]byte("app")), LastResultsHash: tmhash.Sum([]byte("r")), EvidenceHash: tmhash.Sum([]byte("e")),
	}
	commit := &cmttypes.Commit{Height: height, Round: 1, BlockID: bidA, Signatures: []cmttypes.CommitSig{}}
	header := &ibctm.Header{
		SignedHeader: &cmtproto.SignedHeader{Header: hdr.ToProto(), Commit: commit.ToProto()},
		ValidatorSet: vsProto,
	}
	dve := &cmttypes.DuplicateVoteEvidence{VoteA: first, VoteB: second, TotalVotingPower: 15, ValidatorPower: 10, Timestamp: ts}
	msg := &providertypes.MsgSubmitConsumerDoubleVoting{
		Submitter:             w.accAddr(a.Sender),
		DuplicateVoteEvidence: dve.ToProto(),
		InfractionBlockHeader: header,
		ConsumerId:            consumerID,
	}
	return []sdk.Msg{msg}, a.Sender, nil
}

// Misbehaviour mutations ("" = valid light-client attack).
var MisbehaviourMutations = []string{"", "other-client", "other-consumer-chain-id", "different-heights", "below-trust-level", "amnesia", "bad-signature", "unknown-consumer"}

// buildMisbehaviour builds MsgSubmitConsumerMisbehaviour with two conflicting headers at one height that
// verify against the consensus state the provider created for the consumer at launch (trusted height =
// initial height, trusted validators = initial validator set).
func buildMisbehaviour(w *World, a *Action) ([]sdk.Msg, string, error) {
	ev := a.Ev
	ctx := w.P.Ctx()
	k := w.P.PApp.ProviderKeeper
	consumerID := a.Consumer
	chainID, _ := k.GetConsumerChainId(ctx, consumerID)
	clientID, _ := k.GetConsumerClientId(ctx, consumerID)
	gen, ok := k.GetConsumerGenesis(ctx, consumerID)
	ip, err := k.GetConsumerInitializationParameters(ctx, consumerID)
	if !ok || err != nil || clientID == "" {
		return nil, "", fmt.Errorf("consumer %s has no genesis/client", consumerID)
	}
	trustedVals := sim.ValSetFromUpdates(gen.Provider.InitialValSet)
	if trustedVals.Size() == 0 {
		return nil, "", fmt.Errorf("consumer %s has an empty initial validator set", consumerID)
	}
	trustedVals.GetProposer()
	trustedHeight := ip.InitialHeight
	height := int64(trustedHeight.RevisionHeight) + 5
	if ev.Height > 0 {
		height = int64(trustedHeight.RevisionHeight) + ev.Height
	}
	ts := w.P.Time
	signers := map[string]bool{}
	for _, n := range ev.Signers {
		signers[w.Keys.Get(n).Priv.PubKey().Address().String()] = true
	}
	mk := func(seed string, h int64, round int32, conflicting bool) *ibctm.Header {
		app := tmhash.Sum([]byte("app"))
		if conflicting {
			app = tmhash.Sum([]byte("app" + seed))
		}
		hdr := cmttypes.Header{
			Version: cmtprotoversion.Consensus{Block: cmtversion.BlockProtocol, App: 2}, ChainID: chainID, Height: h, Time: ts,
			ValidatorsHash: trustedVals.Hash(), NextValidatorsHash: trustedVals.Hash(), ProposerAddress: trustedVals.Validators[0].Address,
			LastBlockID: ibctesting.MakeBlockID(make([]byte, tmhash.Size), 10_000, make([]byte, tmhash.Size)),
			LastCommitHash: tmhash.Sum([]byte("lc")), DataHash: tmhash.Sum([]byte("d" + seed)), ConsensusHash: tmhash.Sum([]byte("c")),
			AppHash: app, LastResultsHash: tmhash.Sum([]byte("r")), EvidenceHash: tmhash.Sum([]byte("e")),
		}
		if ev.Mutation == "other-consumer-chain-id" {
			hdr.ChainID = ev.OtherChain
		}
		sh, err := sim.CommitHeaderRound(hdr, trustedVals, w.Keys, signers, round)
		if err != nil {
			panic(sim.HarnessError{Msg: "commit header: " + err.Error()})
		}
		vs, _ := trustedVals.ToProto()
		vs.TotalVotingPower = trustedVals.TotalVotingPower()
		tv, _ := trustedVals.ToProto()
		tv.TotalVotingPower = trustedVals.TotalVotingPower()
		return &ibctm.Header{SignedHeader: sh, ValidatorSet: vs, TrustedHeight: trustedHeight, TrustedValidators: tv}
	}
	h1, h2 := height, height
	r1, r2 := int32(1), int32(1)
	conflicting := true
	switch ev.Mutation {
	case "different-heights":
		h2 = height - 1
	case "amnesia":
		conflicting = false
		r2 = 2
	case "below-min-height":
		h1, h2 = int64(trustedHeight.RevisionHeight), int64(trustedHeight.RevisionHeight)
	}
	header1 := mk("1", h1, r1, conflicting)
	header2 := mk("2", h2, r2, conflicting)
	if ev.Mutation == "bad-signature" {
		for i, s := range header2.SignedHeader.Commit.Signatures {
			if len(s.Signature) > 0 {
				header2.SignedHeader.Commit.Signatures[i].Signature[3] ^= 0x01
				break
			}
		}
	}
	mb := &ibctm.Misbehaviour{ClientId: clientID, Header1: header1, Header2: header2}
	switch ev.Mutation {
	case "other-client":
		mb.ClientId = ev.OtherChain
	case "unknown-consumer":
		consumerID = "9999"
	}
	msg := &providertypes.MsgSubmitConsumerMisbehaviour{Submitter: w.accAddr(a.Sender), Misbehaviour: mb, ConsumerId: consumerID}
	return []sdk.Msg{msg}, a.Sender, nil
}

var _ = clienttypes.Height{}
