// Package sim is the chain driver of the verification harness: it produces blocks on a real
// provider or consumer application the way CometBFT would (exactly one FinalizeBlock+Commit per height,
// txs batched into the block, last-commit votes and misbehaviour chosen by the caller), keeps the
// engine-side validator set, and can produce signed headers and store proofs for relaying.
package sim

import (
	"context"
	"encoding/base64"
	"fmt"
	"sort"
	"time"

	abci "github.com/cometbft/cometbft/abci/types"
	"github.com/cometbft/cometbft/crypto/tmhash"
	cmtproto "github.com/cometbft/cometbft/proto/tendermint/types"
	cmtprotoversion "github.com/cometbft/cometbft/proto/tendermint/version"
	cmttypes "github.com/cometbft/cometbft/types"
	cmtversion "github.com/cometbft/cometbft/version"

	"github.com/cosmos/cosmos-sdk/client"
	"github.com/cosmos/cosmos-sdk/types/tx/signing"
	authsign "github.com/cosmos/cosmos-sdk/x/auth/signing"

	sdk "github.com/cosmos/cosmos-sdk/types"

	clienttypes "github.com/cosmos/ibc-go/v10/modules/core/02-client/types"
	commitmenttypes "github.com/cosmos/ibc-go/v10/modules/core/23-commitment/types"
	ibcexported "github.com/cosmos/ibc-go/v10/modules/core/exported"
	ibctm "github.com/cosmos/ibc-go/v10/modules/light-clients/07-tendermint"
	ibctesting "github.com/cosmos/ibc-go/v10/testing"
)

func b64(b []byte) string { return base64.StdEncoding.EncodeToString(b) }

// HarnessError is raised (by panic) when the harness itself cannot proceed; it is never a property violation.
type HarnessError struct{ Msg string }

func (e HarnessError) Error() string { return "harness: " + e.Msg }

func Must(err error, what string) {
	if err != nil {
		panic(HarnessError{Msg: what + ": " + err.Error()})
	}
}

// HeaderRec is what is needed to produce a signed light-client header for a committed height later.
type HeaderRec struct {
	Header   cmttypes.Header
	Vals     *cmttypes.ValidatorSet // set that signs this height
	NextVals *cmttypes.ValidatorSet // set of height+1 (the "trusted validators" for updates from this height)
}

// BlockResult is what a produced block returned.
type BlockResult struct {
	Height  int64
	Time    time.Time
	Resp    *abci.ResponseFinalizeBlock
	Err     error       // non-nil if FinalizeBlock returned an error
	Panic   interface{} // non-nil if FinalizeBlock panicked
	TxNames []string
	// EngineHalt is set when the block was executed and committed but the consensus engine cannot continue
	// (the resulting validator set is empty)
	EngineHalt string
}

func (b *BlockResult) Failed() bool { return b.Err != nil || b.Panic != nil }

// PendingTx is a signed tx waiting for the next block.
type PendingTx struct {
	Name  string
	Bytes []byte
}

// Chain drives one application.
type Chain struct {
	App     ibctesting.TestingApp
	ChainID string
	Keys    *KeyStore

	Height   int64 // last committed height
	Time     time.Time
	PrevVals *cmttypes.ValidatorSet // set that signed block Height (used for last-commit votes of the next block)
	Vals     *cmttypes.ValidatorSet // set of block Height+1
	NextVals *cmttypes.ValidatorSet // set of block Height+2
	Headers  map[int64]*HeaderRec
	LastHash []byte // app hash after last commit

	Pending []PendingTx
	Halted  bool

	Accounts map[string]*Account // tx-signing accounts by name
	AccOrder []string
	SeqOf    func(addr sdk.AccAddress) uint64 // committed sequence number of an account

	// VoteFilter, if set, restricts last-commit vote infos to validators for which it returns true
	// (precondition "the signer of the previous block is still known to the staking module").
	VoteFilter func(addr []byte) bool
}

// InitChain runs InitChain and prepares the driver; the first block produced has height 1.
func (c *Chain) InitChain(genesisTime time.Time, appState []byte, consParams *cmtproto.ConsensusParams) {
	c.InitChainAt(genesisTime, appState, consParams, 1)
}

// InitChainAt is InitChain with an explicit initial height.
func (c *Chain) InitChainAt(genesisTime time.Time, appState []byte, consParams *cmtproto.ConsensusParams, initialHeight int64) {
	res, err := c.App.InitChain(&abci.RequestInitChain{
		ChainId:         c.ChainID,
		Time:            genesisTime,
		Validators:      []abci.ValidatorUpdate{},
		AppStateBytes:   appState,
		ConsensusParams: consParams,
		InitialHeight:   initialHeight,
	})
	Must(err, "InitChain "+c.ChainID)
	vals := ValSetFromUpdates(res.Validators)
	c.Height = initialHeight - 1
	c.Time = genesisTime
	c.PrevVals = nil
	c.Vals = vals
	c.NextVals = vals.Copy()
	c.Headers = map[int64]*HeaderRec{}
	c.LastHash = res.AppHash
}

// ValSetFromUpdates builds a CometBFT validator set from ABCI updates.
func ValSetFromUpdates(updates []abci.ValidatorUpdate) *cmttypes.ValidatorSet {
	tm, err := cmttypes.PB2TM.ValidatorUpdates(updates)
	Must(err, "convert validator updates")
	vs := cmttypes.NewValidatorSet(nil)
	if len(tm) > 0 {
		Must(vs.UpdateWithChangeSet(tm), "initial validator set")
	}
	return vs
}

// ApplyUpdates returns a copy of vs with the updates applied (error if CometBFT would reject them).
func ApplyUpdates(vs *cmttypes.ValidatorSet, updates []abci.ValidatorUpdate) (*cmttypes.ValidatorSet, error) {
	tm, err := cmttypes.PB2TM.ValidatorUpdates(updates)
	if err != nil {
		return nil, err
	}
	nv := vs.Copy()
	if len(tm) == 0 {
		return nv, nil
	}
	if err := nv.UpdateWithChangeSet(tm); err != nil {
		return nil, err
	}
	return nv, nil
}

// Ctx returns an uncached context over the last committed state, with a header for the *next* block
// (like ibctesting's GetContext). Used for read-only observation.
func (c *Chain) Ctx() sdk.Context {
	h := cmtproto.Header{ChainID: c.ChainID, Height: c.Height + 1, Time: c.Time, AppHash: c.LastHash}
	return c.App.GetBaseApp().NewUncachedContext(false, h)
}

// Votes describes who signed the previous block: addresses (hex upper) listed in Absent did not.
type Votes struct {
	Absent map[string]bool
}

// ProduceBlock executes one block at time c.Time+dt with all pending txs.
func (c *Chain) ProduceBlock(dt time.Duration, votes Votes, misbehavior []abci.Misbehavior) *BlockResult {
	if c.Halted {
		panic(HarnessError{Msg: "ProduceBlock on halted chain " + c.ChainID})
	}
	height := c.Height + 1
	blockTime := c.Time.Add(dt)
	var voteInfos []abci.VoteInfo
	if c.PrevVals != nil {
		for _, v := range c.PrevVals.Validators {
			if c.VoteFilter != nil && !c.VoteFilter(v.Address) {
				continue
			}
			flag := cmtproto.BlockIDFlagCommit
			if votes.Absent[v.Address.String()] {
				flag = cmtproto.BlockIDFlagAbsent
			}
			voteInfos = append(voteInfos, abci.VoteInfo{
				Validator:   abci.Validator{Address: v.Address, Power: v.VotingPower},
				BlockIdFlag: flag,
			})
		}
	}
	txs := make([][]byte, len(c.Pending))
	names := make([]string, len(c.Pending))
	for i, p := range c.Pending {
		txs[i] = p.Bytes
		names[i] = p.Name
	}
	c.Pending = nil
	var proposer []byte
	if p := c.Vals.GetProposer(); p != nil {
		proposer = p.Address
	}
	req := &abci.RequestFinalizeBlock{
		Txs:                txs,
		DecidedLastCommit:  abci.CommitInfo{Round: 0, Votes: voteInfos},
		Misbehavior:        misbehavior,
		Hash:               tmhash.Sum([]byte(fmt.Sprintf("%s/%d", c.ChainID, height))),
		Height:             height,
		Time:               blockTime,
		NextValidatorsHash: c.NextVals.Hash(),
		ProposerAddress:    proposer,
	}
	br := &BlockResult{Height: height, Time: blockTime, TxNames: names}
	func() {
		defer func() {
			if r := recover(); r != nil {
				if he, ok := r.(HarnessError); ok {
					panic(he)
				}
				br.Panic = r
			}
		}()
		br.Resp, br.Err = c.App.FinalizeBlock(req)
	}()
	if br.Failed() {
		c.Halted = true
		return br
	}
	_, err := c.App.Commit()
	Must(err, "Commit")

	// header of this height: carries the app hash of the previous height (CometBFT semantics)
	hdr := cmttypes.Header{
		Version:            cmtprotoversion.Consensus{Block: cmtversion.BlockProtocol, App: 2},
		ChainID:            c.ChainID,
		Height:             height,
		Time:               blockTime,
		LastBlockID:        ibctesting.MakeBlockID(make([]byte, tmhash.Size), 10_000, make([]byte, tmhash.Size)),
		LastCommitHash:     tmhash.Sum([]byte("lc")),
		DataHash:           tmhash.Sum([]byte("data")),
		ValidatorsHash:     c.Vals.Hash(),
		NextValidatorsHash: c.NextVals.Hash(),
		ConsensusHash:      tmhash.Sum([]byte("cons")),
		AppHash:            c.LastHash,
		LastResultsHash:    tmhash.Sum([]byte("res")),
		EvidenceHash:       tmhash.Sum([]byte("ev")),
		ProposerAddress:    proposer,
	}
	c.Headers[height] = &HeaderRec{Header: hdr, Vals: c.Vals, NextVals: c.NextVals}

	newNext, err := ApplyUpdates(c.NextVals, br.Resp.ValidatorUpdates)
	if err != nil {
		c.Halted = true
		if isEmptySetUpdate(c.NextVals, br.Resp.ValidatorUpdates) {
			// every validator was removed (e.g. all validators of an opt-in consumer opted out): the consensus
			// engine stops the chain; that is inherent to the protocol, not an application failure
			br.EngineHalt = "the validator updates remove every validator"
			return br
		}
		// CometBFT would reject these updates and halt: report as a block failure
		br.Err = fmt.Errorf("consensus engine rejects validator updates: %w", err)
		return br
	}
	c.PrevVals = c.Vals
	c.Vals = c.NextVals
	c.NextVals = newNext
	c.Vals.IncrementProposerPriority(1)
	c.Height = height
	c.Time = blockTime
	c.LastHash = c.App.LastCommitID().Hash
	return br
}

func isEmptySetUpdate(vs *cmttypes.ValidatorSet, updates []abci.ValidatorUpdate) bool {
	left := SetAsMap(vs)
	for _, u := range updates {
		k := fmt.Sprintf("%X", u.PubKey.GetEd25519())
		if u.Power == 0 {
			delete(left, k)
		} else {
			left[k] = u.Power
		}
	}
	return len(left) == 0
}

// SignTx signs msgs with the account; the sequence is read from committed state plus the number of
// txs of that account already pending.
func (c *Chain) SignTx(acc *Account, seq uint64, msgs ...sdk.Msg) ([]byte, error) {
	return SignTxWith(c.App.GetTxConfig(), c.ChainID, acc, seq, sdk.Coins{}, msgs...)
}

func SignTxWith(txConfig client.TxConfig, chainID string, acc *Account, seq uint64, fee sdk.Coins, msgs ...sdk.Msg) ([]byte, error) {
	signMode, err := authsign.APISignModeToInternal(txConfig.SignModeHandler().DefaultMode())
	if err != nil {
		return nil, err
	}
	sig := signing.SignatureV2{
		PubKey:   acc.Pub,
		Data:     &signing.SingleSignatureData{SignMode: signMode},
		Sequence: seq,
	}
	b := txConfig.NewTxBuilder()
	if err := b.SetMsgs(msgs...); err != nil {
		return nil, err
	}
	if err := b.SetSignatures(sig); err != nil {
		return nil, err
	}
	b.SetFeeAmount(fee)
	b.SetGasLimit(500_000_000)
	signerData := authsign.SignerData{
		Address:       acc.Addr().String(),
		ChainID:       chainID,
		AccountNumber: acc.Num,
		Sequence:      seq,
		PubKey:        acc.Pub,
	}
	signBytes, err := authsign.GetSignBytesAdapter(context.Background(), txConfig.SignModeHandler(), signMode, signerData, b.GetTx())
	if err != nil {
		return nil, err
	}
	sigBytes, err := acc.Priv.Sign(signBytes)
	if err != nil {
		return nil, err
	}
	sig.Data.(*signing.SingleSignatureData).Signature = sigBytes
	if err := b.SetSignatures(sig); err != nil {
		return nil, err
	}
	return txConfig.TxEncoder()(b.GetTx())
}

// SignedHeader builds the 07-tendermint header for a committed height, trusting trustedHeight.
func (c *Chain) SignedHeader(height int64, trustedHeight clienttypes.Height) (*ibctm.Header, error) {
	rec, ok := c.Headers[height]
	if !ok {
		return nil, fmt.Errorf("no header record for height %d", height)
	}
	trusted, ok := c.Headers[int64(trustedHeight.RevisionHeight)]
	if !ok {
		return nil, fmt.Errorf("no header record for trusted height %d", trustedHeight.RevisionHeight)
	}
	sh, err := c.commitHeader(rec.Header, rec.Vals)
	if err != nil {
		return nil, err
	}
	valSet, err := rec.Vals.ToProto()
	if err != nil {
		return nil, err
	}
	valSet.TotalVotingPower = rec.Vals.TotalVotingPower()
	tv, err := trusted.NextVals.ToProto()
	if err != nil {
		return nil, err
	}
	tv.TotalVotingPower = trusted.NextVals.TotalVotingPower()
	return &ibctm.Header{SignedHeader: sh, ValidatorSet: valSet, TrustedHeight: trustedHeight, TrustedValidators: tv}, nil
}

func (c *Chain) commitHeader(h cmttypes.Header, valSet *cmttypes.ValidatorSet) (*cmtproto.SignedHeader, error) {
	return CommitHeader(h, valSet, c.Keys, nil)
}

// CommitHeader signs header h with the validators of valSet (all of them, or only those in only if non-nil).
func CommitHeader(h cmttypes.Header, valSet *cmttypes.ValidatorSet, keys *KeyStore, only map[string]bool) (*cmtproto.SignedHeader, error) {
	return CommitHeaderRound(h, valSet, keys, only, 1)
}

// CommitHeaderRound is CommitHeader with an explicit commit round.
func CommitHeaderRound(h cmttypes.Header, valSet *cmttypes.ValidatorSet, keys *KeyStore, only map[string]bool, round int32) (*cmtproto.SignedHeader, error) {
	blockID := ibctesting.MakeBlockID(h.Hash(), 3, tmhash.Sum([]byte("part_set")))
	sigs := make([]cmttypes.CommitSig, len(valSet.Validators))
	for i, v := range valSet.Validators {
		key, ok := keys.ByAddr(v.Address.String())
		if !ok || (only != nil && !only[v.Address.String()]) {
			sigs[i] = cmttypes.NewCommitSigAbsent()
			continue
		}
		vote := &cmtproto.Vote{
			Type:             cmtproto.PrecommitType,
			Height:           h.Height,
			Round:            round,
			BlockID:          blockID.ToProto(),
			Timestamp:        h.Time,
			ValidatorAddress: v.Address,
			ValidatorIndex:   int32(i),
		}
		if err := key.PV.SignVote(h.ChainID, vote); err != nil {
			return nil, err
		}
		sigs[i] = cmttypes.CommitSig{
			BlockIDFlag:      cmttypes.BlockIDFlagCommit,
			ValidatorAddress: v.Address,
			Timestamp:        h.Time,
			Signature:        vote.Signature,
		}
	}
	commit := &cmttypes.Commit{Height: h.Height, Round: round, BlockID: blockID, Signatures: sigs}
	return &cmtproto.SignedHeader{Header: h.ToProto(), Commit: commit.ToProto()}, nil
}

// QueryProofAt returns a merkle proof for key in the ibc store as of committed version `version` and the
// height at which a light client can verify it (version + 1: the header that carries that app hash). The
// header of version+1 exists only once block version+1 is committed, so relayers use version = Height-1.
func (c *Chain) QueryProofAt(key []byte, version int64) ([]byte, clienttypes.Height, error) {
	res, err := c.App.Query(context.Background(), &abci.RequestQuery{
		Path:   fmt.Sprintf("store/%s/key", ibcexported.StoreKey),
		Height: version,
		Data:   key,
		Prove:  true,
	})
	if err != nil {
		return nil, clienttypes.Height{}, err
	}
	if res.ProofOps == nil {
		return nil, clienttypes.Height{}, fmt.Errorf("no proof returned: %s", res.Log)
	}
	merkleProof, err := commitmenttypes.ConvertProofs(res.ProofOps)
	if err != nil {
		return nil, clienttypes.Height{}, err
	}
	proof, err := c.App.AppCodec().Marshal(&merkleProof)
	if err != nil {
		return nil, clienttypes.Height{}, err
	}
	return proof, clienttypes.NewHeight(clienttypes.ParseChainID(c.ChainID), uint64(res.Height)+1), nil
}

// ValueAt returns the raw value of an ibc-store key at a committed version.
func (c *Chain) ValueAt(key []byte, version int64) []byte {
	res, err := c.App.Query(context.Background(), &abci.RequestQuery{
		Path:   fmt.Sprintf("store/%s/key", ibcexported.StoreKey),
		Height: version,
		Data:   key,
	})
	if err != nil {
		return nil
	}
	return res.Value
}

// EngineSet returns the engine-side validator set of the next block as map hex pubkey -> power.
func SetAsMap(vs *cmttypes.ValidatorSet) map[string]int64 {
	m := map[string]int64{}
	for _, v := range vs.Validators {
		m[fmt.Sprintf("%X", v.PubKey.Bytes())] = v.VotingPower
	}
	return m
}

// SortedKeys returns the sorted keys of a string-keyed map.
func SortedKeys[V any](m map[string]V) []string {
	ks := make([]string, 0, len(m))
	for k := range m {
		ks = append(ks, k)
	}
	sort.Strings(ks)
	return ks
}

// QueueTx signs msgs with the named account and queues the tx for the next block. At most one tx per
// account and block may be queued (the sequence is taken from committed state).
func (c *Chain) QueueTx(name, accName string, msgs ...sdk.Msg) {
	c.QueueTxFee(name, accName, sdk.Coins{}, msgs...)
}

// QueueTxFee is QueueTx with an explicit fee.
func (c *Chain) QueueTxFee(name, accName string, fee sdk.Coins, msgs ...sdk.Msg) {
	acc := c.Accounts[accName]
	if acc == nil {
		panic(HarnessError{Msg: "unknown account " + accName + " on " + c.ChainID})
	}
	bz, err := SignTxWith(c.App.GetTxConfig(), c.ChainID, acc, c.SeqOf(acc.Addr()), fee, msgs...)
	Must(err, "sign tx")
	c.Pending = append(c.Pending, PendingTx{Name: name, Bytes: bz})
}
