package sim

import (
	"encoding/json"
	"fmt"
	"time"

	cmtproto "github.com/cometbft/cometbft/proto/tendermint/types"
	db "github.com/cosmos/cosmos-db"

	"cosmossdk.io/math"

	"github.com/cosmos/cosmos-sdk/baseapp"
	codectypes "github.com/cosmos/cosmos-sdk/codec/types"
	simtestutil "github.com/cosmos/cosmos-sdk/testutil/sims"
	sdk "github.com/cosmos/cosmos-sdk/types"
	authtypes "github.com/cosmos/cosmos-sdk/x/auth/types"
	banktypes "github.com/cosmos/cosmos-sdk/x/bank/types"
	govtypes "github.com/cosmos/cosmos-sdk/x/gov/types"
	govv1 "github.com/cosmos/cosmos-sdk/x/gov/types/v1"
	slashingtypes "github.com/cosmos/cosmos-sdk/x/slashing/types"
	stakingtypes "github.com/cosmos/cosmos-sdk/x/staking/types"

	appProvider "github.com/cosmos/interchain-security/v7/app/provider"
	providertypes "github.com/cosmos/interchain-security/v7/x/ccv/provider/types"
)

const BondDenom = "stake"

// ValSpec describes a genesis validator.
type ValSpec struct {
	Name   string `json:"name"`
	Tokens int64  `json:"tokens"`
}

// ProviderConfig is everything that determines the provider genesis.
type ProviderConfig struct {
	ChainID        string        `json:"chain_id"`
	Validators     []ValSpec     `json:"validators"`
	Users          []string      `json:"users"` // extra funded accounts
	MaxValidators  uint32        `json:"max_validators"`
	UnbondingTime  time.Duration `json:"unbonding_time"`
	MaxProviderVal int64         `json:"max_provider_consensus_validators"`
	BlocksPerEpoch int64         `json:"blocks_per_epoch"`
	EpochsToReward int64         `json:"epochs_to_reward"`
	CcvTimeout     time.Duration `json:"ccv_timeout"`
	ReplenishPeriod   time.Duration `json:"replenish_period"`
	ReplenishFraction string        `json:"replenish_fraction"`
	TrustingFraction  string        `json:"trusting_fraction"`

	SignedBlocksWindow   int64         `json:"signed_blocks_window"`
	MinSignedPerWindow   string        `json:"min_signed_per_window"`
	DowntimeJailDuration time.Duration `json:"downtime_jail_duration"`
	SlashDoubleSign      string        `json:"slash_double_sign"`
	SlashDowntime        string        `json:"slash_downtime"`
	VotingPeriod         time.Duration `json:"voting_period"`
	CommunityTax         string        `json:"community_tax"`
}

func DefaultProviderConfig(n int) ProviderConfig {
	cfg := ProviderConfig{
		ChainID:              "provider",
		MaxValidators:        100,
		UnbondingTime:        1000 * time.Second,
		MaxProviderVal:       100,
		BlocksPerEpoch:       2,
		EpochsToReward:       1,
		CcvTimeout:           4 * 7 * 24 * time.Hour,
		ReplenishPeriod:      time.Hour,
		ReplenishFraction:    "0.05",
		TrustingFraction:     "0.66",
		SignedBlocksWindow:   4,
		MinSignedPerWindow:   "0.5",
		DowntimeJailDuration: 60 * time.Second,
		SlashDoubleSign:      "0.05",
		SlashDowntime:        "0.01",
		VotingPeriod:         8 * time.Second,
		Users:                []string{"alice", "bob", "carol"},
	}
	for i := 0; i < n; i++ {
		cfg.Validators = append(cfg.Validators, ValSpec{Name: fmt.Sprintf("v%d", i), Tokens: int64(1_000_000 * (i + 1))})
	}
	return cfg
}

// Provider wraps a provider application and its driver.
type Provider struct {
	*Chain
	PApp *appProvider.App
	Cfg  ProviderConfig
}

var GenesisTime = time.Date(2025, 1, 1, 0, 0, 0, 0, time.UTC)

// ConsKeyName is the name of the provider consensus key of a validator.
func ConsKeyName(val string) string { return "prov-" + val }

// NewProvider builds the provider app from cfg and runs InitChain (no block produced yet).
func NewProvider(cfg ProviderConfig, keys *KeyStore) *Provider {
	enc := appProvider.MakeTestEncodingConfig()
	app := appProvider.New(AppLogger(), db.NewMemDB(), nil, true, simtestutil.EmptyAppOptions{}, baseapp.SetChainID(cfg.ChainID))
	gs := appProvider.NewDefaultGenesisState(enc.Codec)
	cdc := app.AppCodec()

	p := &Provider{PApp: app, Cfg: cfg}
	p.Chain = &Chain{App: app, ChainID: cfg.ChainID, Keys: keys, Accounts: map[string]*Account{}}
	p.Chain.SeqOf = func(addr sdk.AccAddress) uint64 {
		a := app.AccountKeeper.GetAccount(p.Ctx(), addr)
		if a == nil {
			return 0
		}
		return a.GetSequence()
	}

	var genAccs []authtypes.GenesisAccount
	var balances []banktypes.Balance
	addAcc := func(name string) *Account {
		a := NewAccount(name)
		a.Num = uint64(len(genAccs))
		p.Accounts[name] = a
		p.AccOrder = append(p.AccOrder, name)
		genAccs = append(genAccs, authtypes.NewBaseAccount(a.Addr(), a.Pub, a.Num, 0))
		balances = append(balances, banktypes.Balance{
			Address: a.Addr().String(),
			Coins:   sdk.NewCoins(sdk.NewCoin(BondDenom, math.NewInt(1_000_000_000_000_000))),
		})
		return a
	}

	var validators []stakingtypes.Validator
	var delegations []stakingtypes.Delegation
	var signingInfos []slashingtypes.SigningInfo
	total := math.ZeroInt()
	for _, vs := range cfg.Validators {
		acc := addAcc(vs.Name)
		ck := keys.Get(ConsKeyName(vs.Name))
		pkAny, err := codectypes.NewAnyWithValue(ck.SDKPubKey())
		Must(err, "pubkey any")
		tokens := math.NewInt(vs.Tokens)
		validators = append(validators, stakingtypes.Validator{
			OperatorAddress:   acc.ValAddr().String(),
			ConsensusPubkey:   pkAny,
			Jailed:            false,
			Status:            stakingtypes.Bonded,
			Tokens:            tokens,
			DelegatorShares:   math.LegacyNewDecFromInt(tokens),
			Description:       stakingtypes.Description{Moniker: vs.Name},
			UnbondingHeight:   0,
			UnbondingTime:     time.Unix(0, 0).UTC(),
			Commission:        stakingtypes.NewCommission(math.LegacyNewDecWithPrec(1, 1), math.LegacyNewDecWithPrec(5, 1), math.LegacyNewDecWithPrec(1, 1)),
			MinSelfDelegation: math.OneInt(),
		})
		delegations = append(delegations, stakingtypes.NewDelegation(acc.Addr().String(), acc.ValAddr().String(), math.LegacyNewDecFromInt(tokens)))
		signingInfos = append(signingInfos, slashingtypes.SigningInfo{
			Address: ck.Addr().String(),
			ValidatorSigningInfo: slashingtypes.ValidatorSigningInfo{
				Address:     ck.Addr().String(),
				JailedUntil: time.Unix(0, 0).UTC(),
			},
		})
		total = total.Add(tokens)
	}
	for _, u := range cfg.Users {
		addAcc(u)
	}
	balances = append(balances, banktypes.Balance{
		Address: authtypes.NewModuleAddress(stakingtypes.BondedPoolName).String(),
		Coins:   sdk.NewCoins(sdk.NewCoin(BondDenom, total)),
	})

	gs[authtypes.ModuleName] = cdc.MustMarshalJSON(authtypes.NewGenesisState(authtypes.DefaultParams(), genAccs))
	gs[banktypes.ModuleName] = cdc.MustMarshalJSON(banktypes.NewGenesisState(banktypes.DefaultGenesisState().Params, balances, sdk.NewCoins(), []banktypes.Metadata{}, []banktypes.SendEnabled{}))

	sp := stakingtypes.DefaultParams()
	sp.BondDenom = BondDenom
	sp.MaxValidators = cfg.MaxValidators
	sp.UnbondingTime = cfg.UnbondingTime
	sp.HistoricalEntries = 10000
	gs[stakingtypes.ModuleName] = cdc.MustMarshalJSON(stakingtypes.NewGenesisState(sp, validators, delegations))

	var slg slashingtypes.GenesisState
	cdc.MustUnmarshalJSON(gs[slashingtypes.ModuleName], &slg)
	slg.Params.SignedBlocksWindow = cfg.SignedBlocksWindow
	slg.Params.MinSignedPerWindow = math.LegacyMustNewDecFromStr(cfg.MinSignedPerWindow)
	slg.Params.DowntimeJailDuration = cfg.DowntimeJailDuration
	slg.Params.SlashFractionDoubleSign = math.LegacyMustNewDecFromStr(cfg.SlashDoubleSign)
	slg.Params.SlashFractionDowntime = math.LegacyMustNewDecFromStr(cfg.SlashDowntime)
	slg.SigningInfos = signingInfos
	gs[slashingtypes.ModuleName] = cdc.MustMarshalJSON(&slg)

	var gg govv1.GenesisState
	cdc.MustUnmarshalJSON(gs[govtypes.ModuleName], &gg)
	vp := cfg.VotingPeriod
	gg.Params.VotingPeriod = &vp
	evp := cfg.VotingPeriod / 2
	gg.Params.ExpeditedVotingPeriod = &evp
	gg.Params.MinDeposit = sdk.NewCoins(sdk.NewCoin(BondDenom, math.NewInt(1)))
	gg.Params.ExpeditedMinDeposit = sdk.NewCoins(sdk.NewCoin(BondDenom, math.NewInt(2)))
	gs[govtypes.ModuleName] = cdc.MustMarshalJSON(&gg)

	var pg providertypes.GenesisState
	cdc.MustUnmarshalJSON(gs[providertypes.ModuleName], &pg)
	pg.Params.BlocksPerEpoch = cfg.BlocksPerEpoch
	pg.Params.MaxProviderConsensusValidators = cfg.MaxProviderVal
	pg.Params.NumberOfEpochsToStartReceivingRewards = cfg.EpochsToReward
	pg.Params.CcvTimeoutPeriod = cfg.CcvTimeout
	pg.Params.SlashMeterReplenishPeriod = cfg.ReplenishPeriod
	pg.Params.SlashMeterReplenishFraction = cfg.ReplenishFraction
	pg.Params.TrustingPeriodFraction = cfg.TrustingFraction
	gs[providertypes.ModuleName] = cdc.MustMarshalJSON(&pg)

	stateBytes, err := json.Marshal(gs)
	Must(err, "marshal genesis")
	p.Chain.InitChain(GenesisTime, stateBytes, ConsensusParams())

	sk := app.StakingKeeper
	// Precondition of the real system: the unbonding period is far longer than two blocks, so a validator
	// that signed the previous block is still known to x/staking and not yet unbonded when its vote is
	// reported. The generators use short unbonding periods and long time steps, so the driver enforces it.
	p.Chain.VoteFilter = func(addr []byte) bool {
		v, err := sk.GetValidatorByConsAddr(p.Ctx(), sdk.ConsAddress(addr))
		return err == nil && !v.IsUnbonded()
	}
	return p
}

// GovAddr returns the governance authority address.
func GovAddr() string { return authtypes.NewModuleAddress(govtypes.ModuleName).String() }

// Dispatch executes msg through the message router on a cache-branched context positioned at the end of
// the last committed block and writes the branch only if the handler succeeds (what x/gov does with the
// messages of a passed proposal).
func (p *Provider) Dispatch(msg sdk.Msg) (err error) {
	h := cmtproto.Header{ChainID: p.ChainID, Height: p.Height, Time: p.Time, AppHash: p.LastHash}
	ctx := p.PApp.GetBaseApp().NewUncachedContext(false, h)
	cctx, write := ctx.CacheContext()
	handler := p.PApp.MsgServiceRouter().Handler(msg)
	if handler == nil {
		return fmt.Errorf("no handler for %T", msg)
	}
	defer func() {
		if r := recover(); r != nil {
			err = fmt.Errorf("panic in handler: %v", r)
		}
	}()
	_, err = handler(cctx, msg)
	if err == nil {
		write()
	}
	return err
}

// ConsensusParams are the simapp defaults without a block gas limit (blocks with hundreds of messages are generated).
func ConsensusParams() *cmtproto.ConsensusParams {
	cp := *simtestutil.DefaultConsensusParams
	blk := *cp.Block
	blk.MaxGas = -1
	blk.MaxBytes = 20_000_000
	cp.Block = &blk
	return &cp
}
