package sim

import (
	"encoding/json"
	"time"

	db "github.com/cosmos/cosmos-db"

	"cosmossdk.io/math"

	"github.com/cosmos/cosmos-sdk/baseapp"
	simtestutil "github.com/cosmos/cosmos-sdk/testutil/sims"
	sdk "github.com/cosmos/cosmos-sdk/types"
	authtypes "github.com/cosmos/cosmos-sdk/x/auth/types"
	banktypes "github.com/cosmos/cosmos-sdk/x/bank/types"
	slashingtypes "github.com/cosmos/cosmos-sdk/x/slashing/types"

	appConsumer "github.com/cosmos/interchain-security/v7/app/consumer"
	consumertypes "github.com/cosmos/interchain-security/v7/x/ccv/consumer/types"
	ccvtypes "github.com/cosmos/interchain-security/v7/x/ccv/types"
)

// ConsumerConfig is what the consumer's operators choose themselves (the rest comes from the provider).
type ConsumerConfig struct {
	Users              []string      `json:"users"`
	SignedBlocksWindow int64         `json:"signed_blocks_window"`
	MinSignedPerWindow string        `json:"min_signed_per_window"`
	DowntimeJail       time.Duration `json:"downtime_jail"`
	RewardDenoms       []string      `json:"reward_denoms"`
	ProviderRewardDenoms []string    `json:"provider_reward_denoms"`
	RetryDelay         time.Duration `json:"retry_delay"`
	ExtraDenoms        []string      `json:"extra_denoms"`
}

func DefaultConsumerConfig() ConsumerConfig {
	return ConsumerConfig{
		Users:              []string{"relayer", "cuser1", "cuser2"},
		SignedBlocksWindow: 4,
		MinSignedPerWindow: "0.5",
		DowntimeJail:       30 * time.Second,
		RewardDenoms:       []string{BondDenom},
		RetryDelay:         0,
	}
}

// Consumer wraps a consumer application and its driver.
type Consumer struct {
	*Chain
	CApp *appConsumer.App
	Cfg  ConsumerConfig
	ID   string // consumer id on the provider
}

// NewConsumer instantiates a consumer chain from the genesis the provider stored for it.
func NewConsumer(id, chainID string, gen ccvtypes.ConsumerGenesisState, initialHeight int64, genesisTime time.Time, cfg ConsumerConfig, keys *KeyStore) *Consumer {
	enc := appConsumer.MakeTestEncodingConfig()
	app := appConsumer.New(AppLogger(), db.NewMemDB(), nil, true, simtestutil.EmptyAppOptions{}, baseapp.SetChainID(chainID))
	gs := appConsumer.NewDefaultGenesisState(enc.Codec)
	cdc := app.AppCodec()

	c := &Consumer{CApp: app, Cfg: cfg, ID: id}
	c.Chain = &Chain{App: app, ChainID: chainID, Keys: keys, Accounts: map[string]*Account{}}
	c.Chain.SeqOf = func(addr sdk.AccAddress) uint64 {
		a := app.AccountKeeper.GetAccount(c.Ctx(), addr)
		if a == nil {
			return 0
		}
		return a.GetSequence()
	}

	var genAccs []authtypes.GenesisAccount
	var balances []banktypes.Balance
	for _, u := range cfg.Users {
		a := NewAccount(u)
		a.Num = uint64(len(genAccs))
		c.Accounts[u] = a
		c.AccOrder = append(c.AccOrder, u)
		genAccs = append(genAccs, authtypes.NewBaseAccount(a.Addr(), a.Pub, a.Num, 0))
		coins := sdk.NewCoins(sdk.NewCoin(BondDenom, math.NewInt(1_000_000_000_000_000_000)))
		for _, d := range cfg.ExtraDenoms {
			coins = coins.Add(sdk.NewCoin(d, math.NewInt(1_000_000_000_000_000_000)))
		}
		balances = append(balances, banktypes.Balance{Address: a.Addr().String(), Coins: coins})
	}
	gs[authtypes.ModuleName] = cdc.MustMarshalJSON(authtypes.NewGenesisState(authtypes.DefaultParams(), genAccs))
	gs[banktypes.ModuleName] = cdc.MustMarshalJSON(banktypes.NewGenesisState(banktypes.DefaultGenesisState().Params, balances, sdk.NewCoins(), []banktypes.Metadata{}, []banktypes.SendEnabled{}))

	var slg slashingtypes.GenesisState
	cdc.MustUnmarshalJSON(gs[slashingtypes.ModuleName], &slg)
	slg.Params.SignedBlocksWindow = cfg.SignedBlocksWindow
	slg.Params.MinSignedPerWindow = math.LegacyMustNewDecFromStr(cfg.MinSignedPerWindow)
	slg.Params.DowntimeJailDuration = cfg.DowntimeJail
	gs[slashingtypes.ModuleName] = cdc.MustMarshalJSON(&slg)

	// the consumer module genesis is the one the provider produced; the operators add their reward denoms
	gen.Params.RewardDenoms = cfg.RewardDenoms
	gen.Params.ProviderRewardDenoms = cfg.ProviderRewardDenoms
	if cfg.RetryDelay > 0 {
		gen.Params.RetryDelayPeriod = cfg.RetryDelay
	}
	gs[consumertypes.ModuleName] = cdc.MustMarshalJSON(&gen)

	stateBytes, err := json.Marshal(gs)
	Must(err, "marshal consumer genesis")
	c.Chain.InitChainAt(genesisTime, stateBytes, ConsensusParams(), initialHeight)
	return c
}
