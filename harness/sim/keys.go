package sim

import (
	"fmt"
	"os"

	"cosmossdk.io/log"
	"github.com/rs/zerolog"

	"github.com/cometbft/cometbft/crypto/ed25519"
	tmprotocrypto "github.com/cometbft/cometbft/proto/tendermint/crypto"
	cmttypes "github.com/cometbft/cometbft/types"

	cryptocodec "github.com/cosmos/cosmos-sdk/crypto/codec"
	"github.com/cosmos/cosmos-sdk/crypto/keys/secp256k1"
	cryptotypes "github.com/cosmos/cosmos-sdk/crypto/types"
	sdk "github.com/cosmos/cosmos-sdk/types"
)

// ConsKey is a consensus key the harness can sign with.
type ConsKey struct {
	Name string
	Priv ed25519.PrivKey
	PV   cmttypes.MockPV
}

func NewConsKey(name string) *ConsKey {
	priv := ed25519.GenPrivKeyFromSecret([]byte("verif-cons-" + name))
	return &ConsKey{Name: name, Priv: priv, PV: cmttypes.NewMockPVWithParams(priv, false, false)}
}

func (k *ConsKey) PubKey() ed25519.PubKey { return k.Priv.PubKey().(ed25519.PubKey) }

// Addr returns the consensus address (20 bytes).
func (k *ConsKey) Addr() sdk.ConsAddress { return sdk.ConsAddress(k.Priv.PubKey().Address()) }

func (k *ConsKey) Proto() tmprotocrypto.PublicKey {
	return tmprotocrypto.PublicKey{Sum: &tmprotocrypto.PublicKey_Ed25519{Ed25519: k.Priv.PubKey().Bytes()}}
}

func (k *ConsKey) SDKPubKey() cryptotypes.PubKey {
	pk, err := cryptocodec.FromCmtPubKeyInterface(k.Priv.PubKey())
	if err != nil {
		panic(err)
	}
	return pk
}

// JSON returns the `{"@type":...,"key":...}` form expected by MsgAssignConsumerKey / MsgOptIn.
func (k *ConsKey) JSON() string {
	return fmt.Sprintf(`{"@type":"/cosmos.crypto.ed25519.PubKey","key":"%s"}`, b64(k.Priv.PubKey().Bytes()))
}

// KeyStore maps consensus addresses (hex upper, as cmt prints them) to signers.
type KeyStore struct {
	byAddr map[string]*ConsKey
	byName map[string]*ConsKey
}

func NewKeyStore() *KeyStore {
	return &KeyStore{byAddr: map[string]*ConsKey{}, byName: map[string]*ConsKey{}}
}

// Get returns the key with the given name, creating it deterministically if needed.
func (ks *KeyStore) Get(name string) *ConsKey {
	if k, ok := ks.byName[name]; ok {
		return k
	}
	k := NewConsKey(name)
	ks.byName[name] = k
	ks.byAddr[k.Priv.PubKey().Address().String()] = k
	return k
}

func (ks *KeyStore) ByAddr(addrHexUpper string) (*ConsKey, bool) {
	k, ok := ks.byAddr[addrHexUpper]
	return k, ok
}

// Account is a tx-signing account held by the harness.
type Account struct {
	Name string
	Priv *secp256k1.PrivKey
	Pub  cryptotypes.PubKey
	Num  uint64
	addr []byte
	b32  string
}

func NewAccount(name string) *Account {
	a := &Account{Name: name, Priv: secp256k1.GenPrivKeyFromSecret([]byte("verif-acc-" + name))}
	a.Pub = a.Priv.PubKey()
	a.addr = a.Pub.Address()
	a.b32 = sdk.AccAddress(a.addr).String()
	return a
}

func (a *Account) Addr() sdk.AccAddress    { return sdk.AccAddress(a.addr) }
func (a *Account) ValAddr() sdk.ValAddress { return sdk.ValAddress(a.addr) }
func (a *Account) Bech32() string          { return a.b32 }

// NameByAddr returns the name of the key with the given consensus address (hex upper), "" if unknown.
func (ks *KeyStore) NameByAddr(addrHexUpper string) string {
	if k, ok := ks.byAddr[addrHexUpper]; ok {
		return k.Name
	}
	return ""
}

// AppLogger returns the logger handed to the applications: silent unless VERIF_APPLOG is set.
func AppLogger() log.Logger {
	if os.Getenv("VERIF_APPLOG") != "" {
		return log.NewLogger(os.Stdout, log.LevelOption(zerolog.InfoLevel))
	}
	return log.NewNopLogger()
}
