package oracle

import (
	"bytes"
	"fmt"
	"time"

	"cosmossdk.io/math"

	ccvtypes "github.com/cosmos/interchain-security/v7/x/ccv/types"

	"verif/harness/world"
)

// C09: jail throttling bounds consumer-initiated jailing; bounced reports are retried.
type C09 struct {
	km  *KeyModel
	n   int
	pre *slashPre

	// per provider block
	allow   []int64 // allowance in force in block i
	repl    []int64 // positive meter increase in BeginBlock of block i
	jailedP []int64 // power jailed by slash packets in block i
	maxPower int64
	lastIncrease time.Time
	haveIncrease bool

	// consumer discipline
	seenC2P   map[string]int
	requests  map[string]int
	bounced, retried, replenished bool
}

func NewC09(w *world.World) *C09 {
	return &C09{km: newKeyModel("C09"), seenC2P: map[string]int{}, requests: map[string]int{}}
}

func (m *C09) Before(w *world.World, a *world.Action) {
	m.km.Before(w, a)
	if a.Kind == world.KBlock && (a.Chain == "" || a.Chain == "provider") && w.P.Height > 0 {
		m.pre = takeSlashPre(w, a)
	}
}

func allowanceOf(fraction string, total math.Int) int64 {
	v := math.LegacyMustNewDecFromStr(fraction).MulInt(total).RoundInt64()
	if v == 0 {
		return 1
	}
	return v
}

func (m *C09) After(w *world.World, a *world.Action, r *world.StepResult) *Violation {
	const P = "C09"
	if r.Block == nil || r.Block.Failed() {
		return m.km.After(w, a, r)
	}
	if r.Chain != "provider" {
		kv := m.km.After(w, a, r)
		if v := m.consumerDiscipline(w, r); v != nil {
			return v
		}
		return kv
	}
	if m.pre == nil {
		return m.km.After(w, a, r)
	}
	pre := m.pre
	m.pre = nil
	ctx := w.P.Ctx()
	k := w.P.PApp.ProviderKeeper
	events, v, strict := analyseSlashPackets(w, m.km, pre, r)
	kmViolation := m.km.After(w, a, r)
	if v != nil && v.Sig != "" {
		// ack-shape problems belong to C08; the throttle clauses cannot be evaluated on this block
		w.Label("throttle-check-skipped")
		return kmViolation
	}
	m.n++
	T := r.Block.Time
	meterPost := k.GetSlashMeter(ctx).Int64()
	allowance := allowanceOf(k.GetSlashMeterReplenishFraction(ctx), pre.totalPower)
	var sub, jailed int64
	for _, ev := range events {
		if ev.throttled && ev.ack == "handled" {
			sub += ev.power
		}
		if ev.jailed {
			jailed += ev.power
		}
		if ev.power > m.maxPower {
			m.maxPower = ev.power
		}
	}
	for _, st := range pre.stake {
		if st.LastPower > m.maxPower {
			m.maxPower = st.LastPower
		}
	}
	m0 := meterPost + sub // the meter after BeginBlock, before the packets of this block
	if !strict && len(events) > 0 {
		// something else in this block may have jailed or unjailed a reported validator: the meter arithmetic of
		// this block cannot be reconstructed; start a new window history
		w.Label("throttle-check-skipped")
		m.allow, m.repl, m.jailedP = nil, nil, nil
		return kmViolation
	}
	if strict {
		// (b) a packet is handled only while the meter is non-negative, and then the meter drops by the jailed power
		running := m0
		for _, ev := range events {
			if !ev.throttled {
				continue
			}
			if running < 0 {
				if ev.ack != "bounced" {
					return violf(P, "handled-with-negative-meter", "slash packet for %s from consumer %s was %s although the slash meter was %d", ev.val, ev.consumer, ev.ack, running)
				}
				m.bounced = true
				w.Label("bounced")
			} else {
				if ev.ack != "handled" {
					return violf(P, "bounced-with-nonnegative-meter", "slash packet for %s from consumer %s was bounced although the slash meter was %d", ev.val, ev.consumer, running)
				}
				running -= ev.power
			}
		}
		if running != meterPost {
			return violf(P, "meter-arithmetic", "slash meter is %d after block %d, replaying the handled packets from %d gives %d", meterPost, r.Block.Height, m0, running)
		}
	}
	// (a) after BeginBlock the meter is at most the allowance
	if m0 > allowance {
		return violf(P, "meter-above-allowance", "slash meter after begin-block of block %d is %d, allowance is %d (fraction %s of power %s); meter before the block %d, after %d, events %s", r.Block.Height, m0, allowance, k.GetSlashMeterReplenishFraction(ctx), pre.totalPower, pre.meter.Int64(), meterPost, fmtEvents(events))
	}
	// (c) increases happen only in BeginBlock, by at most one allowance, at least one period apart
	delta := m0 - pre.meter.Int64()
	var rep int64
	if delta > 0 {
		rep = delta
		m.replenished = true
		w.Label("replenish")
		if delta > allowance {
			return violf(P, "replenish-too-much", "slash meter grew by %d in one begin-block, allowance is %d", delta, allowance)
		}
		period := k.GetSlashMeterReplenishPeriod(ctx)
		if m.haveIncrease && T.Sub(m.lastIncrease) < period {
			return violf(P, "replenish-too-soon", "slash meter replenished at %s and again at %s, replenish period is %s", m.lastIncrease.Format(time.RFC3339), T.Format(time.RFC3339), period)
		}
		m.lastIncrease, m.haveIncrease = T, true
	} else if delta < 0 && m0 != allowance {
		return violf(P, "meter-dropped-in-beginblock", "slash meter went from %d to %d in begin-block of block %d without being clamped to the allowance %d", pre.meter.Int64(), m0, r.Block.Height, allowance)
	}
	m.allow = append(m.allow, allowance)
	m.repl = append(m.repl, rep)
	m.jailedP = append(m.jailedP, jailed)
	// (d) every window ending now
	var J, R int64
	for i := len(m.allow) - 1; i >= 0; i-- {
		J += m.jailedP[i]
		bound := m.allow[i] + R + m.maxPower
		if J > bound {
			return violf(P, "window-bound", "consumer-initiated jailing of %d power in provider blocks %d..%d exceeds the allowance %d at the window start plus %d replenished inside plus one validator (%d)", J, i, len(m.allow)-1, m.allow[i], R, m.maxPower)
		}
		R += m.repl[i]
	}
	return kmViolation
}

// consumerDiscipline checks what leaves an honest consumer.
func (m *C09) consumerDiscipline(w *world.World, r *world.StepResult) *Violation {
	const P = "C09"
	p := w.F().Paths[r.Chain]
	if p == nil || p.Malicious || r.Block.EngineHalt != "" {
		return nil
	}
	C := p.C
	ck := C.CApp.ConsumerKeeper
	if n := len(world.EventsOf(allEv(r), "consumer_slash_request")); n > 0 {
		m.requests[r.Chain] += n
		w.Label("slash-request")
	}
	if _, ok := ck.GetProviderChannel(C.Ctx()); ok {
		w.Label("consumer-ccv-established")
	}
	if len(r.Block.Resp.ValidatorUpdates) == 0 && false {
		w.Label("x")
	}
	var ccv []*world.PacketRec
	for _, pr := range p.C2P {
		if pr.Packet.SourcePort == ccvtypes.ConsumerPortID {
			ccv = append(ccv, pr)
		}
	}
	retry := ck.GetRetryDelayPeriod(C.Ctx())
	for i := m.seenC2P[r.Chain]; i < len(ccv); i++ {
		cur := ccv[i]
		if _, isSlash := decodeSlash(cur.Packet.Data); isSlash {
			w.Label("slash-packet-sent")
		}
		if i == 0 {
			continue
		}
		prev := ccv[i-1]
		if _, prevSlash := decodeSlash(prev.Packet.Data); !prevSlash {
			continue
		}
		if !prev.Acked {
			return violf(P, "sent-while-in-flight", "consumer %s sent CCV packet seq %d in block %d while its slash packet seq %d was unacknowledged", r.Chain, cur.Packet.Sequence, r.Block.Height, prev.Packet.Sequence)
		}
		if prev.SentHeight == cur.SentHeight {
			return violf(P, "sent-after-slash-same-block", "consumer %s sent another CCV packet in the block in which it sent a slash packet", r.Chain)
		}
		switch ackKind(prev.Ack) {
		case "bounced":
			if !bytes.Equal(prev.Packet.Data, cur.Packet.Data) {
				return violf(P, "bounced-not-retried", "consumer %s sent a different packet after its slash packet seq %d was bounced", r.Chain, prev.Packet.Sequence)
			}
			if !cur.SentTime.After(prev.SentTime.Add(retry)) {
				return violf(P, "retry-too-early", "consumer %s retried a bounced slash packet at %s, sent %s, retry delay %s", r.Chain, cur.SentTime.Format(time.RFC3339), prev.SentTime.Format(time.RFC3339), retry)
			}
			m.retried = true
			w.Label("bounce-then-retry")
		case "handled", "v1":
			if bytes.Equal(prev.Packet.Data, cur.Packet.Data) && cur.Packet.Sequence != prev.Packet.Sequence {
				// identical data right after a handled one would be a duplicate only if no second request exists; counted below
				w.Label("same-data-again")
			}
		}
	}
	m.seenC2P[r.Chain] = len(ccv)
	// no drop, no duplicate: every queued request is either handled or still queued
	handled := 0
	closed := false
	for _, pr := range ccv {
		if _, isSlash := decodeSlash(pr.Packet.Data); !isSlash || !pr.Acked {
			continue
		}
		switch ackKind(pr.Ack) {
		case "handled", "v1":
			handled++
		case "error":
			closed = true
		}
	}
	if closed {
		return nil
	}
	pending := 0
	for _, pp := range ck.GetPendingPackets(C.Ctx()) {
		if pp.Type == ccvtypes.SlashPacket {
			pending++
		}
	}
	if handled+pending != m.requests[r.Chain] {
		return violf(P, "slash-packet-lost-or-duplicated", "consumer %s queued %d slash requests; %d were handled and %d are still queued", r.Chain, m.requests[r.Chain], handled, pending)
	}
	return nil
}

func (m *C09) NonTrivial(*world.World) bool { return m.bounced && m.replenished }
func (m *C09) Checks() int                  { return m.n }

var _ = fmt.Sprint
