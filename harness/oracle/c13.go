package oracle

import (
	"strings"

	providertypes "github.com/cosmos/interchain-security/v7/x/ccv/provider/types"

	"verif/harness/world"
)

// C13: consumers are isolated from one another. After every block the raw provider store is diffed against
// the dump taken before the block; every consumer that had no event of its own in the block must have a
// byte-identical footprint (keys attributed by the independent layout table).
type C13 struct {
	n int

	pre       map[string]map[string]string
	preDump   bool
	prePhase  map[string]providertypes.ConsumerPhase
	preSpawn  []world.QueueItem
	preRemove []world.QueueItem
	preInfra  []world.QueueItem
	prePrune  map[string]bool // consumers having key-prune entries
	preExists map[string]bool
	prefixPair bool
	// OnlySuccessful makes only accepted txs / executed proposals count as events of their consumer (used by C14:
	// a rejected message must leave every consumer's state untouched)
	OnlySuccessful bool
	Prop           string
}

func NewC13(w *world.World) *C13 { return &C13{} }

func (m *C13) Before(w *world.World, a *world.Action) {
	if a.Kind != world.KBlock || (a.Chain != "" && a.Chain != "provider") || w.P.Height == 0 {
		return
	}
	dump := w.DumpStore(providertypes.StoreKey)
	m.pre, _ = world.Footprints(dump)
	m.preDump = true
	m.prePhase = map[string]providertypes.ConsumerPhase{}
	ctx := w.P.Ctx()
	for _, id := range w.ConsumerIDs() {
		m.prePhase[id] = w.P.PApp.ProviderKeeper.GetConsumerPhase(ctx, id)
	}
	m.preSpawn = w.ReadQueue(51)
	m.preRemove = w.ReadQueue(52)
	m.preInfra = w.ReadQueue(59)
	m.prePrune = map[string]bool{}
	for _, kv := range dump {
		if kv.K[0] == 41 {
			m.prePrune[world.Decode(kv).Owner] = true
		}
	}
	m.preExists = map[string]bool{}
	for n, o := range w.ObserveVals() {
		m.preExists[n] = o.Exists
	}
}

func subjectsOf(act world.Action, out map[string]bool) {
	if act.Consumer != "" {
		out[act.Consumer] = true
	}
	for _, s := range act.Sub {
		subjectsOf(s, out)
	}
}

func (m *C13) After(w *world.World, a *world.Action, r *world.StepResult) *Violation {
	if r.Block == nil || r.Chain != "provider" || r.Block.Failed() || !m.preDump {
		return nil
	}
	P := "C13"
	if m.Prop != "" {
		P = m.Prop
	}
	m.n++
	ctx := w.P.Ctx()
	k := w.P.PApp.ProviderKeeper
	T := r.Block.Time
	post, _ := world.Footprints(w.DumpStore(providertypes.StoreKey))

	// consumers that had an event of their own in this block
	ev := map[string]bool{}
	for _, tx := range r.Txs {
		if tx.Action != nil && (!m.OnlySuccessful || tx.OK()) {
			subjectsOf(*tx.Action, ev)
		}
	}
	for _, g := range r.Gov {
		if !m.OnlySuccessful || g.Executed {
			subjectsOf(*g.Action, ev)
		}
	}
	for _, q := range m.preSpawn {
		if !q.Time.After(T) {
			ev[q.ID] = true
		}
	}
	for _, q := range m.preRemove {
		if !q.Time.After(T) {
			ev[q.ID] = true
		}
	}
	for _, q := range m.preInfra {
		if !q.Time.After(T) {
			ev[q.ID] = true
		}
	}
	for id := range m.prePrune {
		ev[id] = true // key pruning is a timer of that consumer
	}
	for _, id := range w.ConsumerIDs() {
		if _, existed := m.prePhase[id]; !existed {
			ev[id] = true // created in this block
		}
	}
	bpe := k.GetBlocksPerEpoch(ctx)
	if r.Block.Height%bpe == 0 {
		for _, id := range w.ConsumerIDs() {
			if m.prePhase[id] == world.PhLaunched || k.GetConsumerPhase(ctx, id) == world.PhLaunched {
				ev[id] = true
			}
		}
	}
	// provider-wide validator state: removal of a validator deletes its keys on every consumer
	validatorRemoved := false
	obs := w.ObserveVals()
	for n, was := range m.preExists {
		if was && !obs[n].Exists {
			validatorRemoved = true
		}
	}
	if validatorRemoved {
		w.Label("validator-removed")
		return nil
	}

	ids := map[string]bool{}
	for id := range m.pre {
		ids[id] = true
	}
	for id := range post {
		ids[id] = true
	}
	for id := range ids {
		if ev[id] {
			continue
		}
		if d := world.DiffFootprint(m.pre[id], post[id]); len(d) > 0 {
			var subj []string
			for s := range ev {
				subj = append(subj, s)
			}
			sig := "foreign-change"
			if m.OnlySuccessful {
				sig = "rejected-message-changed-state"
			}
			return violf(P, sig, "block %d changed state of consumer %q (keys %v) although only consumers %v had (accepted) events in it", r.Block.Height, id, d, world.SortedStrings(subj))
		}
	}
	// label: an id-prefix pair where one side had a destructive event and the other side has iterated key spaces
	for x := range ev {
		for y := range ids {
			if x == y || ev[y] || len(m.pre[y]) < 6 {
				continue
			}
			if strings.HasPrefix(y, x) || strings.HasPrefix(x, y) {
				m.prefixPair = true
				w.Label("id-prefix-pair")
			}
		}
	}
	return nil
}

func (m *C13) NonTrivial(*world.World) bool { return m.prefixPair }
func (m *C13) Checks() int                  { return m.n }
