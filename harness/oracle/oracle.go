// Package oracle contains one monitor per property. A monitor is fed every action and its result and
// returns a *Violation when the real applications contradict the property statement.
package oracle

import (
	"fmt"

	abci "github.com/cometbft/cometbft/abci/types"

	"verif/harness/world"
)

// Violation describes a property violation. Sig is a structural signature used to match known findings.
type Violation struct {
	Property string
	Sig      string
	Msg      string
}

func (v *Violation) Error() string { return fmt.Sprintf("[%s] %s (sig=%s)", v.Property, v.Msg, v.Sig) }

func violf(prop, sig, format string, args ...interface{}) *Violation {
	return &Violation{Property: prop, Sig: sig, Msg: fmt.Sprintf(format, args...)}
}

// Monitor observes a world.
type Monitor interface {
	// Before is called before an action is applied.
	Before(w *world.World, a *world.Action)
	// After is called after an action was applied.
	After(w *world.World, a *world.Action, r *world.StepResult) *Violation
	// NonTrivial reports whether the case so far satisfies the property's non-trivial rule.
	NonTrivial(w *world.World) bool
	// Checks returns how many oracle comparisons were made.
	Checks() int
}

// Multi combines monitors.
type Multi []Monitor

func (m Multi) Before(w *world.World, a *world.Action) {
	for _, x := range m {
		x.Before(w, a)
	}
}

func (m Multi) After(w *world.World, a *world.Action, r *world.StepResult) *Violation {
	for _, x := range m {
		if v := x.After(w, a, r); v != nil {
			return v
		}
	}
	return nil
}

func (m Multi) NonTrivial(w *world.World) bool {
	for _, x := range m {
		if !x.NonTrivial(w) {
			return false
		}
	}
	return true
}

func (m Multi) Checks() int {
	n := 0
	for _, x := range m {
		n += x.Checks()
	}
	return n
}

// Survival is the C19 "no block ever fails" monitor; it is attached to every property run as a harness
// sanity condition too (a failing block makes every other oracle meaningless).
type Survival struct{ n int }

func (s *Survival) Before(*world.World, *world.Action) {}
func (s *Survival) After(w *world.World, a *world.Action, r *world.StepResult) *Violation {
	if r.Block != nil {
		s.n++
		if r.Block.Failed() {
			return violf("C19", "block-failed", "chain %q block %d failed: err=%v panic=%v", r.Chain, r.Block.Height, r.Block.Err, r.Block.Panic)
		}
	}
	return nil
}
func (s *Survival) NonTrivial(*world.World) bool { return true }
func (s *Survival) Checks() int                  { return s.n }

type abciEvent = abci.Event
