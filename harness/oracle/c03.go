package oracle

import (
	"fmt"
	"sort"

	"verif/harness/world"
)

// C03: Top-N consumers are validated by every validator in the top N% of power (history part).
type C03 struct {
	n int

	pre      *eligSnap
	preCons  map[string]*world.ConsObs
	mSeen    map[string]map[int64]bool // consumer -> thresholds observed at epochs
	above, below bool
}

func NewC03(w *world.World) *C03 {
	return &C03{mSeen: map[string]map[int64]bool{}}
}

// bruteMinPower restates the property: the threshold is the largest power value m such that the active
// validators with power >= m hold at least N percent of the active power (i.e. the smallest top set).
func bruteMinPower(powers []int64, n uint32) int64 {
	var total int64
	for _, p := range powers {
		total += p
	}
	ps := append([]int64{}, powers...)
	sort.Slice(ps, func(i, j int) bool { return ps[i] > ps[j] })
	for _, m := range ps {
		var s int64
		for _, p := range powers {
			if p >= m {
				s += p
			}
		}
		if s*100 >= int64(n)*total {
			return m
		}
	}
	return -1
}

func activePowers(s *eligSnap) []int64 {
	var out []int64
	for _, name := range s.order {
		o := s.obs[name]
		if o.Exists && s.active[fmt.Sprintf("%X", []byte(o.ConsAddr))] {
			out = append(out, o.LastPower)
		}
	}
	return out
}

func (m *C03) Before(w *world.World, a *world.Action) {
	if a.Kind != world.KBlock || (a.Chain != "" && a.Chain != "provider") {
		return
	}
	m.pre = takeEligSnap(w)
	m.preCons = map[string]*world.ConsObs{}
	for _, id := range w.ConsumersInPhase(world.PhReg, world.PhInit, world.PhLaunched) {
		co := w.ObserveConsumer(id)
		m.preCons[id] = &co
	}
}

func (m *C03) After(w *world.World, a *world.Action, r *world.StepResult) *Violation {
	if r.Block == nil || r.Chain != "provider" || r.Block.Failed() || m.pre == nil {
		return nil
	}
	const P = "C03"
	ctx := w.P.Ctx()
	bpe := w.P.PApp.ProviderKeeper.GetBlocksPerEpoch(ctx)
	epoch := r.Block.Height%bpe == 0
	post := takeEligSnap(w)

	// opt-out attempts (evaluated against the state at the beginning of the block)
	for _, tx := range r.Txs {
		if tx.Action.Kind != world.KOptOut {
			continue
		}
		id := tx.Action.Consumer
		pre, ok := m.preCons[id]
		if !ok || pre.Phase != world.PhLaunched || pre.Shaping.Top_N == 0 || !pre.HasMinPow {
			continue
		}
		if tx.Action.Sender != tx.Action.Val {
			continue // not signed by the validator's operator: rejected for another reason (C14)
		}
		if countTouched(r, id) > 1 {
			w.Label("optout-check-skipped")
			continue
		}
		o, ok := m.pre.obs[tx.Action.Val]
		if !ok || !o.Exists {
			continue
		}
		addr := fmt.Sprintf("%X", []byte(o.ConsAddr))
		now := w.ObserveConsumer(id)
		m.n++
		if o.LastPower >= pre.MinPower {
			m.above = true
			w.Label("optout-above")
			if tx.OK() {
				return violf(P, "optout-above-accepted", "validator %s (power %d) opted out of Top-N consumer %s although the threshold is %d", o.Name, o.LastPower, id, pre.MinPower)
			}
			if pre.OptedIn[addr] && !now.OptedIn[addr] && now.Phase == world.PhLaunched {
				return violf(P, "optout-above-removed", "rejected opt-out of %s removed its opt-in record on consumer %s", o.Name, id)
			}
		} else {
			m.below = true
			w.Label("optout-below")
			if !tx.OK() {
				return violf(P, "optout-below-rejected", "validator %s (power %d) below the threshold %d could not opt out of consumer %s: %s", o.Name, o.LastPower, pre.MinPower, id, tx.Log)
			}
			if now.OptedIn[addr] && !epoch {
				return violf(P, "optout-below-kept", "accepted opt-out of %s left its opt-in record on consumer %s", o.Name, id)
			}
		}
	}

	for _, id := range w.ConsumersInPhase(world.PhLaunched) {
		co := w.ObserveConsumer(id)
		if co.Shaping.Top_N == 0 {
			if co.HasMinPow {
				return violf(P, "minpower-on-optin-chain", "opt-in consumer %s has a stored Top-N threshold %d", id, co.MinPower)
			}
			continue
		}
		if !epoch {
			continue
		}
		m.n++
		if !co.HasMinPow {
			return violf(P, "minpower-missing", "Top-N consumer %s has no stored threshold after an epoch", id)
		}
		want := bruteMinPower(activePowers(post), co.Shaping.Top_N)
		if co.MinPower != want {
			return violf(P, "minpower-wrong", "consumer %s (N=%d): stored threshold %d, brute force over active powers %v gives %d (height %d)", id, co.Shaping.Top_N, co.MinPower, activePowers(post), want, r.Block.Height)
		}
		if m.mSeen[id] == nil {
			m.mSeen[id] = map[int64]bool{}
		}
		m.mSeen[id][want] = true
		if len(m.mSeen[id]) >= 2 {
			w.Label("topN-threshold-moved")
		}
		members := map[string]bool{}
		for _, c := range co.Set {
			members[c.ProvAddr] = true
		}
		for _, name := range post.order {
			o := post.obs[name]
			if !o.Exists {
				continue
			}
			addr := fmt.Sprintf("%X", []byte(o.ConsAddr))
			if post.active[addr] && o.LastPower >= want {
				if !co.OptedIn[addr] {
					return violf(P, "top-not-opted-in", "active validator %s (power %d >= %d) is not opted in on Top-N consumer %s", o.Name, o.LastPower, want, id)
				}
				if reason := eligibility(post, &co, o); reason == "" && !members[addr] {
					return violf(P, "top-not-member", "active validator %s (power %d >= %d) is missing from Top-N consumer %s", o.Name, o.LastPower, want, id)
				}
			}
			if members[addr] && o.LastPower < want && !co.OptedIn[addr] {
				return violf(P, "below-without-optin", "validator %s (power %d < %d) is in Top-N consumer %s without an opt-in record", o.Name, o.LastPower, want, id)
			}
		}
	}
	return nil
}

// countTouched counts txs and governance outcomes of this block addressing consumer id.
func countTouched(r *world.StepResult, id string) int {
	n := 0
	for _, tx := range r.Txs {
		if tx.Action.Consumer == id {
			n++
		}
	}
	for _, g := range r.Gov {
		if g.Action.Consumer == id {
			n++
		}
	}
	return n
}

func (m *C03) NonTrivial(w *world.World) bool {
	moved := false
	for _, s := range m.mSeen {
		if len(s) >= 2 {
			moved = true
		}
	}
	return moved && (m.above || m.below)
}
func (m *C03) Checks() int { return m.n }
