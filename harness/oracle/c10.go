package oracle

import (
	"bytes"
	"fmt"
	"strconv"

	abci "github.com/cometbft/cometbft/abci/types"

	stakingtypes "github.com/cosmos/cosmos-sdk/x/staking/types"

	ibctm "github.com/cosmos/ibc-go/v10/modules/light-clients/07-tendermint"

	providertypes "github.com/cosmos/interchain-security/v7/x/ccv/provider/types"

	"verif/harness/world"
)

// C10: consumer lifecycle follows the phase machine and the launch schedule.
type C10 struct {
	n int

	created  int // successful creates observed
	prePhase map[string]providertypes.ConsumerPhase
	preQueue []world.QueueItem
	preCons  map[string]*world.ConsObs
	pre      *eligSnap

	// Relaxed is set by C19: a fault was injected into a launch of this block, so a launch that would
	// otherwise have to succeed may fail (it must still leave no residue)
	Relaxed func(w *world.World) bool
	Prop    string

	okLaunch, failLaunch, resched, over200 bool
	everLaunched map[string]bool
	everDeleted  map[string]bool
}

func NewC10(w *world.World) *C10 {
	return &C10{everLaunched: map[string]bool{}, everDeleted: map[string]bool{}}
}

const maxLaunchesPerBlock = 200

func (m *C10) Before(w *world.World, a *world.Action) {
	if a.Kind != world.KBlock || (a.Chain != "" && a.Chain != "provider") {
		return
	}
	if w.P.Height == 0 {
		return
	}
	m.prePhase = map[string]providertypes.ConsumerPhase{}
	m.preCons = map[string]*world.ConsObs{}
	ctx := w.P.Ctx()
	for _, id := range w.ConsumerIDs() {
		m.prePhase[id] = w.P.PApp.ProviderKeeper.GetConsumerPhase(ctx, id)
	}
	m.preQueue = w.ReadQueue(51)
	for _, q := range m.preQueue {
		if _, ok := m.preCons[q.ID]; !ok {
			co := w.ObserveConsumer(q.ID)
			m.preCons[q.ID] = &co
		}
	}
	m.pre = takeEligSnap(w)
}

// allowed end-of-block phases for a phase at the start of the block (one block may contain a launch in
// BeginBlock followed by txs, or txs only)
func allowedNext(from, to providertypes.ConsumerPhase) bool {
	U, R, I, L, S, D := providertypes.CONSUMER_PHASE_UNSPECIFIED, world.PhReg, world.PhInit, world.PhLaunched, world.PhStopped, world.PhDeleted
	switch from {
	case U:
		return to == U || to == R || to == I
	case R:
		return to == R || to == I
	case I:
		return to == I || to == R || to == L || to == S
	case L:
		return to == L || to == S
	case S:
		return to == S || to == D
	case D:
		return to == D
	}
	return false
}

func (m *C10) After(w *world.World, a *world.Action, r *world.StepResult) *Violation {
	if r.Block == nil || r.Chain != "provider" || r.Block.Failed() {
		return nil
	}
	const P = "C10"
	ctx := w.P.Ctx()
	k := w.P.PApp.ProviderKeeper
	m.n++

	// ids are handed out once, in increasing order
	for _, tx := range r.Txs {
		if !tx.OK() {
			continue
		}
		for _, e := range world.EventsOf(tx.Events, providertypes.EventTypeCreateConsumer) {
			id := world.Attr(e, providertypes.AttributeConsumerId)
			if id != strconv.Itoa(m.created) {
				return violf(P, "id-sequence", "create returned consumer id %q, expected %d", id, m.created)
			}
			m.created++
		}
	}
	if int(w.NextConsumerID()) != m.created {
		return violf(P, "id-counter", "next consumer id is %d after %d successful creates", w.NextConsumerID(), m.created)
	}

	postQueue := w.ReadQueue(51)
	inQueue := map[string][]world.QueueItem{}
	for _, q := range postQueue {
		inQueue[q.ID] = append(inQueue[q.ID], q)
	}

	for _, id := range w.ConsumerIDs() {
		ph := k.GetConsumerPhase(ctx, id)
		from := providertypes.CONSUMER_PHASE_UNSPECIFIED
		if m.prePhase != nil {
			from = m.prePhase[id]
		}
		if ph == providertypes.CONSUMER_PHASE_UNSPECIFIED {
			return violf(P, "phase-unspecified", "consumer %s has no phase", id)
		}
		if !allowedNext(from, ph) {
			return violf(P, "illegal-transition", "consumer %s moved %s -> %s in block %d", id, from, ph, r.Block.Height)
		}
		if ph == world.PhLaunched {
			m.everLaunched[id] = true
		}
		if ph == world.PhDeleted {
			m.everDeleted[id] = true
		}
		if m.everLaunched[id] && (ph == world.PhReg || ph == world.PhInit) {
			return violf(P, "relaunchable", "consumer %s returned to %s after having been launched", id, ph)
		}
		if m.everDeleted[id] && ph != world.PhDeleted {
			return violf(P, "resurrected", "deleted consumer %s is now %s", id, ph)
		}
		// initialized <=> spawn time set <=> scheduled exactly once under that time
		if ph == world.PhReg || ph == world.PhInit {
			ip, err := k.GetConsumerInitializationParameters(ctx, id)
			if err != nil {
				return violf(P, "no-init-params", "pre-launch consumer %s has no initialization parameters: %v", id, err)
			}
			items := inQueue[id]
			if ph == world.PhInit {
				if ip.SpawnTime.IsZero() {
					return violf(P, "init-without-spawn", "consumer %s is initialized with zero spawn time", id)
				}
				if len(items) != 1 || !items[0].Time.Equal(ip.SpawnTime) {
					return violf(P, "init-queue", "initialized consumer %s (spawn %s) is scheduled %d times: %v", id, ip.SpawnTime, len(items), items)
				}
			} else {
				if !ip.SpawnTime.IsZero() {
					return violf(P, "registered-with-spawn", "consumer %s is registered but has spawn time %s", id, ip.SpawnTime)
				}
				if len(items) != 0 {
					return violf(P, "registered-queued", "registered consumer %s is still scheduled: %v", id, items)
				}
			}
		} else if len(inQueue[id]) != 0 {
			return violf(P, "post-launch-queued", "consumer %s in phase %s is still in the spawn queue: %v", id, ph, inQueue[id])
		}
	}

	// the launch schedule of this block
	if m.prePhase != nil {
		due := 0
		for _, q := range m.preQueue {
			if q.Time.After(r.Block.Time) {
				break
			}
			due++
		}
		if due > maxLaunchesPerBlock {
			m.over200 = true
			w.Label(">200-due")
		}
		for i, q := range m.preQueue {
			id := q.ID
			if m.prePhase[id] != world.PhInit {
				return violf(P, "queue-not-init", "consumer %s was scheduled while in phase %s", id, m.prePhase[id])
			}
			if touched(r, id) {
				w.Label("launch-check-skipped")
				continue
			}
			ph := k.GetConsumerPhase(ctx, id)
			isDue := !q.Time.After(r.Block.Time) && i < maxLaunchesPerBlock
			if !isDue {
				if ph != world.PhInit {
					return violf(P, "launched-early", "consumer %s (spawn %s, queue position %d) left the initialized phase (%s) in block %d at %s", id, q.Time, i, ph, r.Block.Height, r.Block.Time)
				}
				continue
			}
			// due: must have been attempted in this block
			switch ph {
			case world.PhLaunched:
				m.okLaunch = true
				w.Label("launch-ok")
				if v := m.checkLaunched(w, r, id); v != nil {
					return v
				}
			case world.PhReg:
				m.failLaunch = true
				w.Label("launch-failed")
				if _, ok := k.GetConsumerClientId(ctx, id); ok {
					return violf(P, "failed-launch-residue", "consumer %s failed to launch but has a client id", id)
				}
				if _, ok := k.GetConsumerGenesis(ctx, id); ok {
					return violf(P, "failed-launch-residue", "consumer %s failed to launch but has a genesis", id)
				}
				if vs, _ := k.GetConsumerValSet(ctx, id); len(vs) != 0 {
					return violf(P, "failed-launch-residue", "consumer %s failed to launch but has a validator set", id)
				}
				if _, ok := k.GetMinimumPowerInTopN(ctx, id); ok && m.preCons[id] != nil && !m.preCons[id].HasMinPow {
					return violf(P, "failed-launch-residue", "consumer %s failed to launch but got a Top-N threshold", id)
				}
			default:
				return violf(P, "due-not-attempted", "consumer %s was due (spawn %s <= block time %s, queue position %d) but is still %s after block %d", id, q.Time, r.Block.Time, i, ph, r.Block.Height)
			}
			// clear-cut expectations
			if pre := m.preCons[id]; pre != nil {
				mustFail, mustSucceed := m.launchExpectation(w, pre)
				if mustFail != "" && ph == world.PhLaunched {
					return violf(P, "launch-should-fail", "consumer %s launched although %s", id, mustFail)
				}
				if mustSucceed != "" && ph != world.PhLaunched && !(m.Relaxed != nil && m.Relaxed(w)) {
					return violf(P, "launch-should-succeed", "consumer %s did not launch although %s", id, mustSucceed)
				}
			}
		}
		// reschedule label: a consumer scheduled before and after under different times
		preTimes := map[string]int64{}
		for _, q := range m.preQueue {
			preTimes[q.ID] = q.Time.UnixNano()
		}
		for _, q := range postQueue {
			if t, ok := preTimes[q.ID]; ok && t != q.Time.UnixNano() {
				m.resched = true
				w.Label("reschedule")
			}
		}
	}
	return nil
}

// launchExpectation decides the clear-cut cases from the state at the beginning of the block.
func (m *C10) launchExpectation(w *world.World, pre *world.ConsObs) (mustFail, mustSucceed string) {
	if pre.Init.ConnectionId != "" {
		if _, found := w.P.PApp.IBCKeeper.ConnectionKeeper.GetConnection(w.P.Ctx(), pre.Init.ConnectionId); !found {
			return "its connection " + pre.Init.ConnectionId + " does not exist", ""
		}
		return "", ""
	}
	if len(pre.OptedIn) == 0 && pre.Shaping.Top_N == 0 {
		return "nobody had opted in", ""
	}
	if pre.Shaping.ValidatorSetCap != 0 && pre.Shaping.Top_N == 0 {
		return "", ""
	}
	post := takeEligSnap(w)
	for _, name := range m.pre.order {
		o := m.pre.obs[name]
		po := post.obs[name]
		if !o.Exists || !po.Exists || o.Status != stakingtypes.Bonded || po.Status != stakingtypes.Bonded || o.Jailed || po.Jailed {
			continue
		}
		addr := fmt.Sprintf("%X", []byte(o.ConsAddr))
		if !m.pre.active[addr] || !post.active[addr] || !pre.OptedIn[addr] {
			continue
		}
		if eligibility(m.pre, pre, o) == "" && eligibility(post, pre, po) == "" {
			return "", "opted-in validator " + name + " is active, bonded, not jailed and not excluded"
		}
	}
	return "", ""
}

func hasEvent(evs []abci.Event, typ, key, val string) bool {
	for _, e := range evs {
		if e.Type == typ && world.Attr(e, key) == val {
			return true
		}
	}
	return false
}

// checkLaunched verifies the artefacts of a successful launch.
func (m *C10) checkLaunched(w *world.World, r *world.StepResult, id string) *Violation {
	const P = "C10"
	ctx := w.P.Ctx()
	k := w.P.PApp.ProviderKeeper
	gen, ok := k.GetConsumerGenesis(ctx, id)
	if !ok {
		return violf(P, "launch-no-genesis", "launched consumer %s has no genesis", id)
	}
	ip, err := k.GetConsumerInitializationParameters(ctx, id)
	if err != nil {
		return violf(P, "launch-no-init", "launched consumer %s has no initialization parameters", id)
	}
	if len(gen.Provider.InitialValSet) == 0 {
		return violf(P, "launch-empty-set", "launched consumer %s has an empty initial validator set", id)
	}
	// the initial set contains an active provider validator (the launch runs in BeginBlock on the consensus set
	// recorded at the end of the previous block, which is replaced at the end of this one: either counts)
	if r.Block.Height%k.GetBlocksPerEpoch(ctx) != 0 {
		post := takeEligSnap(w)
		hasActive := false
		for _, cv := range w.ConsumerRecordedSet(id) {
			if m.pre.active[cv.ProvAddr] || post.active[cv.ProvAddr] {
				hasActive = true
			}
		}
		if !hasActive {
			return violf(P, "launch-without-active-validator", "consumer %s was launched although its initial validator set contains no validator of the provider's consensus set", id)
		}
		w.Label("launch-has-active-validator")
	}
	bpe := k.GetBlocksPerEpoch(ctx)
	if r.Block.Height%bpe != 0 {
		stored := cvMap(w.ConsumerRecordedSet(id))
		genSet := map[string]int64{}
		for _, u := range gen.Provider.InitialValSet {
			genSet[fmt.Sprintf("%X", u.PubKey.GetEd25519())] = u.Power
		}
		if !mapsEqual(stored, genSet) {
			return violf(P, "launch-genesis-set", "consumer %s: genesis initial set %s differs from the stored set %s", id, fmtMap(genSet), fmtMap(stored))
		}
	}
	gp := gen.Params
	if !gp.Enabled || gp.ConsumerId != id || gp.UnbondingPeriod != ip.UnbondingPeriod || gp.CcvTimeoutPeriod != ip.CcvTimeoutPeriod ||
		gp.TransferTimeoutPeriod != ip.TransferTimeoutPeriod || gp.ConsumerRedistributionFraction != ip.ConsumerRedistributionFraction ||
		gp.BlocksPerDistributionTransmission != ip.BlocksPerDistributionTransmission || gp.HistoricalEntries != ip.HistoricalEntries ||
		gp.DistributionTransmissionChannel != ip.DistributionTransmissionChannel {
		return violf(P, "launch-genesis-params", "consumer %s: genesis parameters %+v do not reflect the initialization parameters %+v", id, gp, ip)
	}
	clientID, ok := k.GetConsumerClientId(ctx, id)
	if !ok {
		return violf(P, "launch-no-client", "launched consumer %s has no client id", id)
	}
	if ip.ConnectionId == "" {
		if gen.Provider.ClientState == nil || gen.Provider.ConsensusState == nil {
			return violf(P, "launch-no-provider-client", "consumer %s genesis lacks the provider client or consensus state", id)
		}
		cs := gen.Provider.ClientState
		if cs.ChainId != w.P.ChainID || int64(cs.LatestHeight.RevisionHeight) != r.Block.Height {
			return violf(P, "launch-provider-client", "consumer %s genesis provider client: chain %q height %d, want %q %d", id, cs.ChainId, cs.LatestHeight.RevisionHeight, w.P.ChainID, r.Block.Height)
		}
		rec := w.P.Headers[r.Block.Height]
		cons := gen.Provider.ConsensusState
		if !bytes.Equal(cons.NextValidatorsHash, rec.NextVals.Hash()) || !cons.Timestamp.Equal(r.Block.Time) || !bytes.Equal(cons.Root.Hash, rec.Header.AppHash) {
			return violf(P, "launch-provider-consstate", "consumer %s genesis provider consensus state does not describe provider block %d", id, r.Block.Height)
		}
		ics, found := w.P.PApp.IBCKeeper.ClientKeeper.GetClientState(ctx, clientID)
		if !found {
			return violf(P, "launch-client-missing", "consumer %s client %s does not exist in the IBC store", id, clientID)
		}
		chainID, _ := k.GetConsumerChainId(ctx, id)
		tm, ok := ics.(*ibctm.ClientState)
		if !ok || tm.ChainId != chainID || !tm.LatestHeight.EQ(ip.InitialHeight) {
			return violf(P, "launch-client-chain", "consumer %s client %s does not track chain %q at %s: %+v", id, clientID, chainID, ip.InitialHeight, ics)
		}
		if !hasEvent(r.Block.Resp.Events, providertypes.EventTypeConsumerClientCreated, providertypes.AttributeConsumerId, id) {
			return violf(P, "launch-no-event", "consumer %s launched without a consumer_client_created event", id)
		}
	}
	if back, ok := k.GetClientIdToConsumerId(ctx, clientID); !ok || back != id {
		return violf(P, "launch-client-index", "consumer %s: client %s maps back to %q", id, clientID, back)
	}
	return nil
}

func (m *C10) NonTrivial(*world.World) bool { return m.okLaunch && m.failLaunch }
func (m *C10) Checks() int                  { return m.n }
