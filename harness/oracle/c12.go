package oracle

import (
	"fmt"
	"strconv"

	channeltypes "github.com/cosmos/ibc-go/v10/modules/core/04-channel/types"

	consumertypes "github.com/cosmos/interchain-security/v7/x/ccv/consumer/types"
	ibcprovider "github.com/cosmos/interchain-security/v7/x/ccv/provider"
	providertypes "github.com/cosmos/interchain-security/v7/x/ccv/provider/types"
	ccvtypes "github.com/cosmos/interchain-security/v7/x/ccv/types"

	"verif/harness/world"
)

// C12: validator-set update ids and infraction heights line up across chains.
type C12 struct {
	rc *Recorder
	n  int

	// consumer -> height -> id associated with that height (id of the last VSC packet delivered in earlier blocks)
	assoc       map[string]map[int64]uint64
	lastDeliv   map[string]uint64
	slashChecked, slashLagged, unknownID bool
	confirmHeight map[string]int64
	preCur        uint64 // validator-set update id in use at the start of the provider block
	preCurMapped  bool
	havePre       bool
}

func NewC12(w *world.World) *C12 {
	return &C12{rc: newRecorder(), assoc: map[string]map[int64]uint64{}, lastDeliv: map[string]uint64{}, confirmHeight: map[string]int64{}}
}

func (m *C12) Before(w *world.World, a *world.Action) {
	if a.Kind == world.KBlock && (a.Chain == "" || a.Chain == "provider") && w.P.Height > 0 {
		k := w.P.PApp.ProviderKeeper
		m.preCur = k.GetValidatorSetUpdateId(w.P.Ctx())
		_, m.preCurMapped = k.GetValsetUpdateBlockHeight(w.P.Ctx(), m.preCur)
		m.havePre = true
	}
}

func decodeSlash(data []byte) (ccvtypes.SlashPacketData, bool) {
	// consumers put slash packets on the wire in the v1 format; decode as the provider's IBC module does
	cp, err := ibcprovider.UnmarshalConsumerPacketData(data)
	if err != nil || cp.Type != ccvtypes.SlashPacket || cp.GetSlashPacketData() == nil {
		return ccvtypes.SlashPacketData{}, false
	}
	return *cp.GetSlashPacketData(), true
}

func (m *C12) After(w *world.World, a *world.Action, r *world.StepResult) *Violation {
	const P = "C12"
	if r.Block == nil || r.Block.Failed() {
		return nil
	}
	f := w.F()
	if r.Chain == "provider" {
		m.n++
		if v := m.rc.observeProviderBlock(w, r, P); v != nil {
			return v
		}
		ctx := w.P.Ctx()
		k := w.P.PApp.ProviderKeeper
		// channel-opening height (id 0 resolves to it)
		for _, cid := range f.Order {
			if _, ok := m.confirmHeight[cid]; !ok {
				if _, open := k.GetConsumerIdToChannelId(ctx, cid); open {
					m.confirmHeight[cid] = r.Block.Height
					if h, found := k.GetInitChainHeight(ctx, cid); !found || int64(h) != r.Block.Height {
						return violf(P, "init-chain-height", "consumer %s: channel opened in provider block %d but the recorded channel-opening height is %d (found %v)", cid, r.Block.Height, h, found)
					}
				}
			}
		}
		// slash events: the infraction height the provider resolved
		for _, e := range world.EventsOf(allEv(r), providertypes.EventTypeExecuteConsumerChainSlash) {
			id, _ := strconv.ParseUint(world.Attr(e, ccvtypes.AttributeValSetUpdateID), 10, 64)
			h, _ := strconv.ParseInt(world.Attr(e, providertypes.AttributeInfractionHeight), 10, 64)
			m.slashChecked = true
			w.Label("provider-slash-event")
			if id == 0 {
				// id 0: some consumer's channel-opening height
				ok := false
				for _, ch := range m.confirmHeight {
					if ch == h {
						ok = true
					}
				}
				if !ok {
					return violf(P, "slash-height-id0", "slash for validator-set update id 0 resolved to provider height %d, which is no consumer's channel-opening height %v", h, m.confirmHeight)
				}
				continue
			}
			eh, known := m.rc.idHeight[id]
			if m.havePre && id == m.preCur {
				known = false // the id in use while the txs ran: its height was the provisional one
			}
			if !known {
				if id == k.GetValidatorSetUpdateId(ctx) || id+1 == k.GetValidatorSetUpdateId(ctx) {
					// the id in use when the packet was handled: it has a height (mapped every block) although no
					// packet carried it yet; only a malicious consumer can name it
					w.Label("slash-current-id")
					continue
				}
				return violf(P, "slash-unknown-id", "the provider handled a slash packet with id %d that it never issued", id)
			}
			if h != eh+1 {
				return violf(P, "slash-height", "slash for id %d resolved to provider height %d, want %d (block after epoch block %d)", id, h, eh+1, eh)
			}
		}
		// acknowledgements written for slash packets with never-issued ids must be error acks
		cur := k.GetValidatorSetUpdateId(ctx)
		for _, cid := range f.Order {
			p := f.Paths[cid]
			for _, pr := range p.C2P {
				if pr.Ack == nil || pr.AckHeight != r.Block.Height || pr.Packet.SourcePort != ccvtypes.ConsumerPortID {
					continue
				}
				sp, ok := decodeSlash(pr.Packet.Data)
				if !ok {
					continue
				}
				var ack channeltypes.Acknowledgement
				if err := channeltypes.SubModuleCdc.UnmarshalJSON(pr.Ack, &ack); err != nil {
					continue
				}
				_, issued := m.rc.idHeight[sp.ValsetUpdateId]
				_ = cur
				if m.havePre && sp.ValsetUpdateId >= m.preCur {
					// the id in use when the txs ran has a height only once it was mapped at the end of an earlier
					// block; either verdict is consistent for it, later ids are unknown
					if sp.ValsetUpdateId == m.preCur {
						continue
					}
					issued = false
				}
				if sp.ValsetUpdateId == 0 {
					issued = true
				}
				isErr := ack.GetError() != ""
				if !issued {
					m.unknownID = true
					w.Label("slash-unknown-vscid")
					if !isErr {
						return violf(P, "unknown-id-acked", "slash packet with never-issued validator-set update id %d from consumer %s was acknowledged with %s instead of an error", sp.ValsetUpdateId, cid, string(pr.Ack))
					}
				} else if isErr && sp.Validate() == nil {
					return violf(P, "known-id-error-ack", "valid slash packet with issued id %d from consumer %s got an error acknowledgement %s", sp.ValsetUpdateId, cid, string(pr.Ack))
				}
			}
		}
		return nil
	}
	// consumer block
	p := f.Paths[r.Chain]
	if p == nil || r.Block.EngineHalt != "" {
		return nil
	}
	m.n++
	C := p.C
	ck := C.CApp.ConsumerKeeper
	if m.assoc[r.Chain] == nil {
		m.assoc[r.Chain] = map[int64]uint64{}
	}
	// id of the last VSC packet delivered in blocks <= this one
	var last uint64
	for _, pr := range p.P2C {
		if pr.Packet.SourcePort == ccvtypes.ProviderPortID && pr.Delivered {
			if d, ok := decodeVSC(pr.Packet.Data); ok {
				last = d.ValsetUpdateId
			}
		}
	}
	h := r.Block.Height
	m.assoc[r.Chain][h+1] = last
	got := ck.GetHeightValsetUpdateID(C.Ctx(), uint64(h+1))
	if got != last {
		return violf(P, "height-to-id", "consumer %s after block %d: height %d is associated with id %d, but the last update received so far has id %d", r.Chain, h, h+1, got, last)
	}
	// slash packets queued in this block carry the id associated with the infraction height
	if !p.Malicious {
		for _, e := range world.EventsOf(allEv(r), consumertypes.EventTypeConsumerSlashRequest) {
			id, _ := strconv.ParseUint(world.Attr(e, ccvtypes.AttributeValSetUpdateID), 10, 64)
			// x/slashing reports downtime detected in block h with infraction height h-2
			infr := h - 2
			want, known := m.assoc[r.Chain][infr]
			if !known {
				continue
			}
			m.slashChecked = true
			w.Label("consumer-slash-request")
			if last != want {
				m.slashLagged = true
				w.Label("slash-id-lags-deliveries")
			}
			if id != want {
				return violf(P, "slash-id", "consumer %s block %d: slash request carries id %d, the id associated with the infraction height %d is %d", r.Chain, h, id, infr, want)
			}
		}
	}
	return nil
}

func allEv(r *world.StepResult) []abciEvent {
	var evs []abciEvent
	for _, tr := range r.Block.Resp.TxResults {
		if tr.Code == 0 {
			evs = append(evs, tr.Events...)
		}
	}
	return append(evs, r.Block.Resp.Events...)
}

func (m *C12) NonTrivial(*world.World) bool { return m.slashChecked }
func (m *C12) Checks() int                  { return m.n }

var _ = fmt.Sprint
