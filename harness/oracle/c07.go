package oracle

import (
	"fmt"
	"time"

	"cosmossdk.io/math"

	sdk "github.com/cosmos/cosmos-sdk/types"
	stakingtypes "github.com/cosmos/cosmos-sdk/x/staking/types"

	ibctm "github.com/cosmos/ibc-go/v10/modules/light-clients/07-tendermint"

	providertypes "github.com/cosmos/interchain-security/v7/x/ccv/provider/types"

	"verif/harness/world"
)

type stakeRec struct {
	world.ValObs
	UBD []ubdEntry // unbonding entries from this validator
	Red []ubdEntry // redelegation entries with this validator as source
	RedDst map[string]bool
}

type ubdEntry struct {
	Initial    math.Int
	Balance    math.Int
	Completion time.Time
}

func takeStake(w *world.World) map[string]stakeRec {
	ctx := w.P.Ctx()
	sk := w.P.PApp.StakingKeeper
	out := map[string]stakeRec{}
	for name, o := range w.ObserveVals() {
		r := stakeRec{ValObs: o, RedDst: map[string]bool{}}
		if o.Exists {
			va := w.ValAddr(name)
			if ubds, err := sk.GetUnbondingDelegationsFromValidator(ctx, va); err == nil {
				for _, u := range ubds {
					for _, e := range u.Entries {
						r.UBD = append(r.UBD, ubdEntry{e.InitialBalance, e.Balance, e.CompletionTime})
					}
				}
			}
			if reds, err := sk.GetRedelegationsFromSrcValidator(ctx, va); err == nil {
				for _, rd := range reds {
					r.RedDst[rd.ValidatorDstAddress] = true
					for _, e := range rd.Entries {
						r.Red = append(r.Red, ubdEntry{e.InitialBalance, math.ZeroInt(), e.CompletionTime})
					}
				}
			}
		}
		out[name] = r
	}
	return out
}

// C07: equivocation evidence punishes exactly the signer, and only when valid.
type C07 struct {
	km *KeyModel
	n  int

	pre      map[string]stakeRec
	prePhase map[string]providertypes.ConsumerPhase
	absent   bool

	validSeen bool
	mutations map[string]bool
	validWithAssigned, validWithOld bool
}

func NewC07(w *world.World) *C07 {
	return &C07{km: newKeyModel("C07"), mutations: map[string]bool{}}
}

func (m *C07) Before(w *world.World, a *world.Action) {
	m.km.Before(w, a)
	if a.Kind != world.KBlock || (a.Chain != "" && a.Chain != "provider") || w.P.Height == 0 {
		return
	}
	m.pre = takeStake(w)
	m.absent = len(a.Absent) > 0
	m.prePhase = map[string]providertypes.ConsumerPhase{}
	for _, id := range w.ConsumerIDs() {
		m.prePhase[id] = w.P.PApp.ProviderKeeper.GetConsumerPhase(w.P.Ctx(), id)
	}
}

// resolve names the validator that owns key address addr on consumer c according to the reference key table
// (identity for never-assigned keys).
func (m *C07) resolve(w *world.World, c, addr string) string {
	if v, _, _ := m.km.knownOn(c, addr); v != "" {
		return v
	}
	for _, name := range w.ValOrder {
		vi := w.Vals[name]
		if vi.ProvKey != "" && keyAddr(w, vi.ProvKey) == addr {
			return name
		}
	}
	return ""
}

func punishable(r stakeRec) bool {
	return r.Exists && r.Status != stakingtypes.Unbonded && !r.Tombstoned
}

func sameRec(a, b world.ValObs) bool {
	if a.Exists && !b.Exists && !a.Tokens.IsNil() && a.Tokens.IsZero() {
		return true // an empty validator whose unbonding completed in this block is removed by x/staking
	}
	return a.Exists == b.Exists && a.Jailed == b.Jailed && a.Tombstoned == b.Tombstoned && a.JailedUntil == b.JailedUntil &&
		((a.Tokens.IsNil() && b.Tokens.IsNil()) || (!a.Tokens.IsNil() && !b.Tokens.IsNil() && a.Tokens.Equal(b.Tokens)))
}

func (m *C07) After(w *world.World, a *world.Action, r *world.StepResult) *Violation {
	defer func() { m.pre = nil }()
	const P = "C07"
	if r.Block == nil || r.Chain != "provider" || r.Block.Failed() || m.pre == nil {
		return m.km.After(w, a, r)
	}
	var evTx *world.TxOutcome
	for _, tx := range r.Txs {
		if tx.Action.Kind == world.KDoubleVote || tx.Action.Kind == world.KMisbehaviour {
			evTx = tx
		}
	}
	if evTx == nil {
		return m.km.After(w, a, r)
	}
	if len(r.Txs) != 1 || m.absent || len(r.Block.Resp.TxResults) != 1 {
		w.Label("evidence-check-skipped")
		return m.km.After(w, a, r)
	}
	m.n++
	act := evTx.Action
	ev := act.Ev
	ctx := w.P.Ctx()
	k := w.P.PApp.ProviderKeeper
	T := r.Block.Time
	post := takeStake(w)
	id := act.Consumer

	// who may be punished, decided before the key table is advanced past this block
	var culprits []string
	expectOK := false
	why := ""
	hasClient := m.prePhase[id] == world.PhLaunched || (m.prePhase[id] == world.PhStopped && k.GetConsumerPhase(ctx, id) != world.PhDeleted) ||
		(m.prePhase[id] == world.PhInit && k.GetConsumerPhase(ctx, id) == world.PhLaunched)
	params, perr := k.GetInfractionParameters(ctx, id)
	switch {
	case ev.Mutation != "" && ev.Mutation != "below-trust-level" && ev.Mutation != "below-min-height":
		why = "mutation " + ev.Mutation
	case !hasClient || perr != nil:
		why = "consumer has no client"
	case act.Kind == world.KDoubleVote:
		minH := k.GetEquivocationEvidenceMinHeight(ctx, id)
		h := ev.Height
		if h <= 0 {
			h = 10
		}
		if uint64(h) < minH {
			why = fmt.Sprintf("height %d below the minimum evidence height %d", h, minH)
			w.Label("evidence-below-min-height")
			break
		}
		v := m.resolve(w, id, keyAddr(w, ev.KeyName))
		if v == "" || !punishable(m.pre[v]) {
			why = "signer " + v + " unknown, unbonded or tombstoned"
			w.Label("evidence-signer-not-punishable")
			break
		}
		culprits = []string{v}
		expectOK = true
	case act.Kind == world.KMisbehaviour:
		ok, reason, vals := m.misbehaviourExpectation(w, act, T)
		if !ok {
			why = reason
			w.Label("misbehaviour-declined:" + reason)
			break
		}
		for _, v := range vals {
			if punishable(m.pre[v]) {
				culprits = append(culprits, v)
			}
		}
		if len(culprits) == 0 {
			why = "no punishable signer"
			break
		}
		expectOK = true
	}

	keyClass := 0
	if act.Kind == world.KDoubleVote {
		if v, isCur, _ := m.km.knownOn(id, keyAddr(w, ev.KeyName)); v != "" {
			keyClass = 2
			if isCur {
				keyClass = 1
			}
		}
	}
	kmViolation := m.km.After(w, a, r)

	if !expectOK {
		if ev.Mutation != "" {
			m.mutations[act.Kind+":"+ev.Mutation] = true
			w.Label("evidence-mutation:" + act.Kind + ":" + ev.Mutation)
		}
		if evTx.OK() {
			return violf(P, "invalid-evidence-accepted", "%s for consumer %s was accepted although %s", act.Kind, id, why)
		}
		for name, before := range m.pre {
			if !sameRec(before.ValObs, post[name].ValObs) {
				return violf(P, "rejected-evidence-changed-state", "rejected %s (%s) changed validator %s: %+v -> %+v", act.Kind, why, name, before.ValObs, post[name].ValObs)
			}
		}
		return kmViolation
	}
	if !evTx.OK() {
		return violf(P, "valid-evidence-rejected", "valid %s against %v on consumer %s (key %s) was rejected: %s", act.Kind, culprits, id, ev.KeyName, evTx.Log)
	}
	m.validSeen = true
	w.Label("evidence-valid:" + act.Kind)
	if keyClass == 1 {
		m.validWithAssigned = true
		w.Label("evidence-valid-assigned-key")
	} else if keyClass == 2 {
		m.validWithOld = true
		w.Label("evidence-valid-replaced-key")
	}
	ds := params.DoubleSign
	isCulprit := map[string]bool{}
	for _, v := range culprits {
		isCulprit[v] = true
	}
	redDst := map[string]bool{}
	for _, v := range culprits {
		for d := range m.pre[v].RedDst {
			redDst[d] = true
		}
	}
	for name, before := range m.pre {
		after := post[name]
		if !isCulprit[name] {
			if redDst[before.Operator] {
				// destination of a redelegation from a culprit: the redelegated stake may be slashed
				if before.Jailed != after.Jailed || before.Tombstoned != after.Tombstoned || before.JailedUntil != after.JailedUntil || after.Tokens.GT(before.Tokens) {
					return violf(P, "bystander-changed", "%s changed redelegation destination %s beyond a token reduction", act.Kind, name)
				}
				continue
			}
			if !sameRec(before.ValObs, after.ValObs) {
				return violf(P, "bystander-changed", "%s against %v changed validator %s: %+v -> %+v", act.Kind, culprits, name, before.ValObs, after.ValObs)
			}
			continue
		}
		if before.Exists && !after.Exists {
			// the culprit had no stake left and its unbonding completed in this block's end-blocker: x/staking removed
			// it after the evidence was handled, there is no record left to compare
			w.Label("culprit-removed-in-evidence-block")
			continue
		}
		if !after.Jailed {
			return violf(P, "culprit-not-jailed", "%s: validator %s was not jailed", act.Kind, name)
		}
		wantUntil := T.Add(ds.JailDuration)
		if after.JailedUntil != wantUntil.UnixNano() {
			return violf(P, "jail-duration", "%s: validator %s jailed until %s, want block time + consumer double-sign jail duration %s = %s", act.Kind, name, time.Unix(0, after.JailedUntil).UTC(), ds.JailDuration, wantUntil.UTC())
		}
		if after.Tombstoned != (before.Tombstoned || ds.Tombstone) {
			return violf(P, "tombstone", "%s: validator %s tombstoned=%v, consumer setting tombstone=%v", act.Kind, name, after.Tombstoned, ds.Tombstone)
		}
		// slashed amount
		var live []ubdEntry
		for _, e := range append(append([]ubdEntry{}, before.UBD...), before.Red...) {
			if e.Completion.After(T) {
				live = append(live, e)
			}
		}
		var unbondingTokens = math.ZeroInt()
		for _, e := range live {
			unbondingTokens = unbondingTokens.Add(e.Initial)
		}
		totalPower := before.LastPower + sdk.TokensToConsensusPower(unbondingTokens, sdk.DefaultPowerReduction)
		slashAmount := math.LegacyNewDecFromInt(sdk.TokensFromConsensusPower(totalPower, sdk.DefaultPowerReduction)).Mul(ds.SlashFraction).TruncateInt()
		burned := before.Tokens.Sub(after.Tokens)
		if burned.IsNegative() {
			return violf(P, "slash-amount", "%s: tokens of %s grew from %s to %s", act.Kind, name, before.Tokens, after.Tokens)
		}
		if ds.SlashFraction.IsZero() && !burned.IsZero() {
			return violf(P, "slash-amount", "%s: %s lost %s tokens with a zero slash fraction", act.Kind, name, burned)
		}
		if redDst[before.Operator] {
			// this culprit is also the destination of a redelegation from another culprit of the same evidence:
			// slashing that one burns redelegated stake here too, so only the lower bound is known
			w.Label("culprit-is-redelegation-destination")
			if ds.SlashFraction.IsPositive() && len(live) == 0 && burned.LT(math.MinInt(slashAmount, before.Tokens)) {
				return violf(P, "slash-amount", "%s: validator %s (power %d, tokens %s) lost %s tokens, want at least fraction %s of its power = %s", act.Kind, name, before.LastPower, before.Tokens, burned, ds.SlashFraction, slashAmount)
			}
		} else if len(live) == 0 {
			want := math.MinInt(slashAmount, before.Tokens)
			if !burned.Equal(want) {
				return violf(P, "slash-amount", "%s: validator %s (power %d, tokens %s) lost %s tokens, want fraction %s of its power = %s (unbonding entries %+v, redelegation entries %+v, block time %s)", act.Kind, name, before.LastPower, before.Tokens, burned, ds.SlashFraction, want, before.UBD, before.Red, T)
			}
		} else {
			w.Label("slash-with-unbonding-stake")
			// the part taken from unbonding/redelegating entries reduces what is burned from the validator
			fromEntries := math.ZeroInt()
			for _, e := range live {
				fromEntries = fromEntries.Add(math.LegacyNewDecFromInt(e.Initial).Mul(ds.SlashFraction).TruncateInt())
			}
			want := slashAmount.Sub(fromEntries)
			if want.IsNegative() {
				want = math.ZeroInt()
			}
			want = math.MinInt(want, before.Tokens)
			if !burned.Equal(want) {
				return violf(P, "slash-amount-unbonding", "%s: validator %s (power %d + unbonding %s) lost %s tokens, want %s (slash %s minus %s taken from %d unbonding/redelegating entries)", act.Kind, name, before.LastPower, unbondingTokens, burned, want, slashAmount, fromEntries, len(live))
			}
			if ds.SlashFraction.IsPositive() && len(before.UBD) > 0 && len(before.Red) == 0 {
				// the unbonding entries themselves must have been reduced
				var bal, balAfter = math.ZeroInt(), math.ZeroInt()
				for _, e := range before.UBD {
					if e.Completion.After(T) {
						bal = bal.Add(e.Balance)
					}
				}
				for _, e := range after.UBD {
					if e.Completion.After(T) {
						balAfter = balAfter.Add(e.Balance)
					}
				}
				if bal.IsPositive() && fromEntries.IsPositive() && !balAfter.LT(bal) {
					return violf(P, "unbonding-not-slashed", "%s: unbonding delegations from %s were not slashed (%s -> %s)", act.Kind, name, bal, balAfter)
				}
			}
		}
	}
	return kmViolation
}

// misbehaviourExpectation decides whether a valid-shaped misbehaviour must be accepted by the light client
// and names the validators that signed both headers.
func (m *C07) misbehaviourExpectation(w *world.World, act *world.Action, T time.Time) (bool, string, []string) {
	ctx := w.P.Ctx()
	k := w.P.PApp.ProviderKeeper
	id := act.Consumer
	clientID, ok := k.GetConsumerClientId(ctx, id)
	if !ok {
		return false, "no client", nil
	}
	cs, found := w.P.PApp.IBCKeeper.ClientKeeper.GetClientState(ctx, clientID)
	if !found {
		return false, "client missing", nil
	}
	tm := cs.(*ibctm.ClientState)
	ip, err := k.GetConsumerInitializationParameters(ctx, id)
	if err != nil {
		return false, "no init params", nil
	}
	cons, found := w.P.PApp.IBCKeeper.ClientKeeper.GetClientConsensusState(ctx, clientID, ip.InitialHeight)
	if !found {
		return false, "no consensus state at the initial height", nil
	}
	consTime := time.Unix(0, int64(cons.GetTimestamp()))
	if T.Sub(consTime) >= tm.TrustingPeriod {
		w.Label("misbehaviour-client-expired")
		return false, "trusted consensus state expired", nil
	}
	gen, ok := k.GetConsumerGenesis(ctx, id)
	if !ok {
		return false, "no genesis", nil
	}
	var total, signed int64
	powerOf := map[string]int64{}
	for _, u := range gen.Provider.InitialValSet {
		ca, _ := world.ConsAddrOfProtoKey(&u.PubKey)
		powerOf[ca] = u.Power
		total += u.Power
	}
	var vals []string
	seen := map[string]bool{}
	for _, kn := range act.Ev.Signers {
		addr := keyAddr(w, kn)
		if p, in := powerOf[addr]; in && !seen[addr] {
			seen[addr] = true
			signed += p
			if v := m.resolve(w, id, addr); v != "" {
				vals = append(vals, v)
			}
		}
	}
	if signed*3 <= total*2 {
		_ = fmt.Sprint
		return false, "signers hold not more than 2/3 of the power", nil
	}
	return true, "", vals
}

func (m *C07) NonTrivial(*world.World) bool { return m.validSeen && len(m.mutations) >= 1 }
func (m *C07) Checks() int                  { return m.n }
