package oracle

import (
	abci "github.com/cometbft/cometbft/abci/types"
	"bytes"
	"fmt"

	"verif/harness/world"
)

// C18: provider and consumer state machines are deterministic. Every action is applied to N independent
// replicas built from the same configuration; per block the application hash and the complete
// ResponseFinalizeBlock (tx results, events, validator updates in order, consensus parameter updates) must be
// byte-identical, and so must the packets and acknowledgements the relayer saw.
type C18 struct {
	replicas []*world.World
	n        int
	tieBlocks int
}

func NewC18(w *world.World, replicas int) *C18 {
	m := &C18{}
	for i := 1; i < replicas; i++ {
		r := world.New(w.Cfg)
		if f := w.F(); f != nil {
			r.EnableConsumersLike(w)
		}
		m.replicas = append(m.replicas, r)
	}
	return m
}

func (m *C18) Before(*world.World, *world.Action) {}

func (m *C18) After(w *world.World, a *world.Action, r *world.StepResult) *Violation {
	const P = "C18"
	for i, rep := range m.replicas {
		rr := rep.Apply(*a)
		if (rr.Skipped != "") != (r.Skipped != "") {
			return violf(P, "applicability", "replica %d: action %s skipped=%q, primary skipped=%q", i+1, a.String(), rr.Skipped, r.Skipped)
		}
		if r.Block == nil {
			continue
		}
		m.n++
		if rr.Block == nil {
			return violf(P, "block-missing", "replica %d produced no block for %s", i+1, a.String())
		}
		if r.Block.Failed() != rr.Block.Failed() {
			return violf(P, "failure-differs", "replica %d: block failed=%v, primary failed=%v", i+1, rr.Block.Failed(), r.Block.Failed())
		}
		if r.Block.Failed() {
			continue
		}
		b1, err1 := r.Block.Resp.Marshal()
		b2, err2 := rr.Block.Resp.Marshal()
		if err1 != nil || err2 != nil {
			return violf(P, "marshal", "cannot marshal block responses: %v %v", err1, err2)
		}
		b1, b2 = stripLogs(b1), stripLogs(b2)
		if !bytes.Equal(b1, b2) {
			return violf(P, "response-differs", "chain %q height %d: ResponseFinalizeBlock differs between replicas (%s)", r.Chain, r.Block.Height, firstDiff(r, rr))
		}
		var h1, h2 []byte
		if r.Chain == "provider" {
			h1, h2 = w.P.LastHash, rep.P.LastHash
		} else if c1, c2 := w.Consumer(r.Chain), rep.Consumer(r.Chain); c1 != nil && c2 != nil {
			h1, h2 = c1.LastHash, c2.LastHash
		}
		if !bytes.Equal(h1, h2) {
			return violf(P, "apphash-differs", "chain %q height %d: app hash %X vs %X", r.Chain, r.Block.Height, h1, h2)
		}
		// packets and acknowledgements observed by the relayer
		if f1, f2 := w.F(), rep.F(); f1 != nil && f2 != nil {
			for _, id := range f1.Order {
				p1, p2 := f1.Paths[id], f2.Paths[id]
				if p2 == nil || len(p1.P2C) != len(p2.P2C) || len(p1.C2P) != len(p2.C2P) {
					return violf(P, "packets-differ", "consumer %s: replicas saw different numbers of packets", id)
				}
				for j := range p1.P2C {
					if !bytes.Equal(p1.P2C[j].Packet.Data, p2.P2C[j].Packet.Data) || !bytes.Equal(p1.P2C[j].Ack, p2.P2C[j].Ack) {
						return violf(P, "packets-differ", "consumer %s: provider packet %d differs between replicas", id, j)
					}
				}
				for j := range p1.C2P {
					if !bytes.Equal(p1.C2P[j].Packet.Data, p2.C2P[j].Packet.Data) || !bytes.Equal(p1.C2P[j].Ack, p2.C2P[j].Ack) {
						return violf(P, "packets-differ", "consumer %s: consumer packet %d differs between replicas", id, j)
					}
				}
			}
		}
	}
	if r.Block != nil && !r.Block.Failed() {
		// a block with >= 3 validator updates of equal power, or >= 3 consumers processed, is a "tie block"
		pw := map[int64]int{}
		for _, u := range r.Block.Resp.ValidatorUpdates {
			pw[u.Power]++
		}
		for _, c := range pw {
			if c >= 3 {
				m.tieBlocks++
				w.Label("tie-block")
				break
			}
		}
		if r.Chain == "provider" && len(w.ConsumersInPhase(world.PhLaunched)) >= 3 {
			m.tieBlocks++
			w.Label("multi-consumer-block")
		}
	}
	return nil
}

func firstDiff(a, b *world.StepResult) string {
	ra, rb := a.Block.Resp, b.Block.Resp
	if len(ra.TxResults) != len(rb.TxResults) {
		return "number of tx results"
	}
	for i := range ra.TxResults {
		x, _ := ra.TxResults[i].Marshal()
		y, _ := rb.TxResults[i].Marshal()
		if !bytes.Equal(x, y) {
			return fmt.Sprintf("tx result %d: %q vs %q", i, ra.TxResults[i].Log, rb.TxResults[i].Log)
		}
	}
	if len(ra.ValidatorUpdates) != len(rb.ValidatorUpdates) {
		return "number of validator updates"
	}
	for i := range ra.ValidatorUpdates {
		x, _ := ra.ValidatorUpdates[i].Marshal()
		y, _ := rb.ValidatorUpdates[i].Marshal()
		if !bytes.Equal(x, y) {
			return fmt.Sprintf("validator update %d: %v vs %v", i, ra.ValidatorUpdates[i], rb.ValidatorUpdates[i])
		}
	}
	if len(ra.Events) != len(rb.Events) {
		return "number of block events"
	}
	for i := range ra.Events {
		x, _ := ra.Events[i].Marshal()
		y, _ := rb.Events[i].Marshal()
		if !bytes.Equal(x, y) {
			return fmt.Sprintf("block event %d (%s)", i, ra.Events[i].Type)
		}
	}
	return "other field"
}

func (m *C18) NonTrivial(*world.World) bool { return m.tieBlocks > 0 }
func (m *C18) Checks() int                  { return m.n }

// stripLogs blanks the Log and Info strings of the transaction results: CometBFT documents both as
// non-deterministic and leaves them out of the results hash (a recovered panic puts a stack trace with goroutine
// ids and addresses into Log); codes, data, gas, events and everything else in the response stay compared.
func stripLogs(bz []byte) []byte {
	var resp abci.ResponseFinalizeBlock
	if err := resp.Unmarshal(bz); err != nil {
		return bz
	}
	for _, tr := range resp.TxResults {
		if tr != nil {
			tr.Log, tr.Info = "", ""
		}
	}
	out, err := resp.Marshal()
	if err != nil {
		return bz
	}
	return out
}
