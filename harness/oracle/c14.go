package oracle

import (
	"fmt"
	"sort"
	"strings"

	providertypes "github.com/cosmos/interchain-security/v7/x/ccv/provider/types"

	"verif/harness/sim"
	"verif/harness/world"
)

// C14: only owners, governance and the validator itself can change what is theirs.
type C14 struct {
	n int

	preOwner  map[string]string
	preTopN   map[string]uint32
	preCons   map[string]*world.ConsObs
	preVal    map[string]map[string]string // consumer -> validator name -> "optedin|key|rate"
	preParams string
	preDenoms string
	preExists map[string]bool
	classes   map[string]bool
	iso       *C13 // rejected messages leave every consumer's raw state untouched
}

func NewC14(w *world.World) *C14 {
	return &C14{classes: map[string]bool{}, iso: &C13{OnlySuccessful: true, Prop: "C14"}}
}

func (m *C14) valState(w *world.World, co *world.ConsObs) map[string]string {
	out := map[string]string{}
	ctx := w.P.Ctx()
	for _, name := range w.ValOrder {
		vi := w.Vals[name]
		if vi.ProvKey == "" {
			continue
		}
		addr := fmt.Sprintf("%X", []byte(w.Keys.Get(vi.ProvKey).Addr()))
		rate, has := w.P.PApp.ProviderKeeper.GetConsumerCommissionRate(ctx, co.ID, providerAddr(w, name))
		out[name] = fmt.Sprintf("optedin=%v key=%s rate=%v/%s", co.OptedIn[addr], co.Keys[addr], has, rate)
	}
	return out
}

func (m *C14) snapshot(w *world.World) {
	ctx := w.P.Ctx()
	m.preOwner = map[string]string{}
	m.preTopN = map[string]uint32{}
	m.preCons = map[string]*world.ConsObs{}
	m.preVal = map[string]map[string]string{}
	for _, id := range w.ConsumerIDs() {
		co := w.ObserveConsumer(id)
		m.preCons[id] = &co
		m.preOwner[id] = co.Owner
		m.preTopN[id] = co.Shaping.Top_N
		m.preVal[id] = m.valState(w, &co)
	}
	p := w.P.PApp.ProviderKeeper.GetParams(ctx)
	m.preParams = p.String()
	d := w.P.PApp.ProviderKeeper.GetAllConsumerRewardDenoms(ctx)
	sort.Strings(d)
	m.preDenoms = strings.Join(d, ",")
	m.preExists = map[string]bool{}
	for name, o := range w.ObserveVals() {
		m.preExists[name] = o.Exists
	}
}

func (m *C14) Before(w *world.World, a *world.Action) {
	m.iso.Before(w, a)
	if a.Kind != world.KBlock || (a.Chain != "" && a.Chain != "provider") || w.P.Height == 0 {
		return
	}
	m.snapshot(w)
}

func (m *C14) class(w *world.World, who, verdict string) {
	l := "sender:" + who + "/" + verdict
	m.classes[l] = true
	w.Label(l)
}

func (m *C14) After(w *world.World, a *world.Action, r *world.StepResult) *Violation {
	if v := m.iso.After(w, a, r); v != nil {
		return v
	}
	if r.Block == nil || r.Chain != "provider" || r.Block.Failed() || m.preOwner == nil {
		return nil
	}
	const P = "C14"
	m.n++
	ctx := w.P.Ctx()
	k := w.P.PApp.ProviderKeeper
	authority := sim.GovAddr()
	verdict := func(ok bool) string {
		if ok {
			return "accepted"
		}
		return "rejected"
	}

	type ownerMove struct{ from, to string }
	ownerMoves := map[string][]ownerMove{} // consumer -> accepted transfers in this block
	valTouched := map[string]map[string]bool{} // consumer -> validator names with an accepted own message
	paramsChanged, denomsChanged := false, false

	// owner-only and validator-only messages delivered as txs
	for _, tx := range r.Txs {
		acts := []world.Action{*tx.Action}
		if tx.Action.Kind == world.KMulti {
			acts = nil
			for _, s := range tx.Action.Sub {
				s.Sender = tx.Action.Sender
				acts = append(acts, s)
			}
		}
		for _, act := range acts {
			senderAddr := ""
			if acc, ok := w.P.Accounts[act.Sender]; ok {
				senderAddr = acc.Bech32()
			}
			switch act.Kind {
			case world.KUpdateConsumer, world.KRemoveConsumer:
				owner, known := m.preOwner[act.Consumer]
				if !known {
					continue
				}
				isOwner := owner == senderAddr
				if countTouched(r, act.Consumer) == 1 {
					who := "stranger"
					if isOwner {
						who = "owner"
					}
					m.class(w, who, verdict(tx.OK()))
					if tx.OK() && !isOwner {
						return violf(P, "non-owner-accepted", "%s on consumer %s by %s accepted although the owner is %s", act.Kind, act.Consumer, act.Sender, w.OwnerName(owner))
					}
				}
				if tx.OK() && act.Kind == world.KUpdateConsumer && act.Spec != nil && act.Spec.NewOwner != "" {
					ownerMoves[act.Consumer] = append(ownerMoves[act.Consumer], ownerMove{from: senderAddr, to: worldAddr(w, act.Spec.NewOwner)})
				}
			case world.KOptIn, world.KOptOut, world.KAssignKey, world.KSetCommission:
				isOperator := act.Sender == act.Val
				who := "other-validator"
				if isOperator {
					who = "operator"
				}
				m.class(w, who, verdict(tx.OK()))
				if tx.OK() && !isOperator {
					return violf(P, "foreign-validator-msg", "%s for validator %s signed by %s was accepted", act.Kind, act.Val, act.Sender)
				}
				if tx.OK() {
					if valTouched[act.Consumer] == nil {
						valTouched[act.Consumer] = map[string]bool{}
					}
					valTouched[act.Consumer][act.Val] = true
				}
			case world.KTxProviderParm, world.KTxRewardDenoms:
				m.class(w, "non-authority", verdict(tx.OK()))
				if tx.OK() {
					return violf(P, "authority-msg-accepted", "%s sent by %s (not the governance authority) was accepted", act.Kind, act.Sender)
				}
			case world.KCreateConsumer:
				if tx.OK() {
					m.class(w, "creator", "accepted")
				}
			}
		}
	}
	// governance outcomes
	for _, g := range r.Gov {
		switch g.Action.Kind {
		case world.KUpdateConsumer, world.KRemoveConsumer:
			owner, known := m.preOwner[g.Action.Consumer]
			if !known {
				continue
			}
			if countTouched(r, g.Action.Consumer) == 1 {
				m.class(w, "gov", verdict(g.Executed))
				if g.Executed && owner != authority {
					return violf(P, "non-owner-accepted", "governance %s on consumer %s executed although the owner is %s", g.Action.Kind, g.Action.Consumer, w.OwnerName(owner))
				}
			}
			if g.Executed && g.Action.Spec != nil && g.Action.Spec.NewOwner != "" {
				ownerMoves[g.Action.Consumer] = append(ownerMoves[g.Action.Consumer], ownerMove{from: authority, to: worldAddr(w, g.Action.Spec.NewOwner)})
			}
		case world.KGovProviderParm:
			if g.Executed {
				paramsChanged = true
			}
		case world.KGovRewardDenoms:
			if g.Executed {
				denomsChanged = true
			}
		}
	}

	// state invariants and attribution of changes
	for _, id := range w.ConsumerIDs() {
		co := w.ObserveConsumer(id)
		if co.Shaping.Top_N != 0 {
			if co.Owner != authority {
				return violf(P, "topn-not-gov-owned", "consumer %s has Top-N %d but is owned by %s", id, co.Shaping.Top_N, w.OwnerName(co.Owner))
			}
			if co.Shaping.Top_N < 50 || co.Shaping.Top_N > 100 {
				return violf(P, "topn-range", "consumer %s has Top-N %d outside 50..100", id, co.Shaping.Top_N)
			}
		}
		// a Top-N value appears or changes only through an executed governance proposal on that consumer: users
		// (whose messages are plain transactions) create and control opt-in consumers only
		if co.Shaping.Top_N != 0 && co.Shaping.Top_N != m.preTopN[id] {
			byGov := false
			for _, g := range r.Gov {
				if g.Executed && g.Action.Consumer == id && g.Action.Kind == world.KUpdateConsumer {
					byGov = true
				}
				if _, existed := m.preOwner[id]; !existed && g.Executed && g.Action.Kind == world.KCreateConsumer {
					byGov = true
				}
			}
			if !byGov {
				return violf(P, "topn-without-governance", "consumer %s got Top-N %d (was %d) in block %d without an executed governance proposal for it", id, co.Shaping.Top_N, m.preTopN[id], r.Block.Height)
			}
			w.Label("topn-set-by-governance")
		}
		preOwner, existed := m.preOwner[id]
		if existed && preOwner != co.Owner {
			// explained by a chain of accepted transfers starting at the previous owner
			cur := preOwner
			for _, mv := range ownerMoves[id] {
				if mv.from == cur {
					cur = mv.to
				}
			}
			if cur != co.Owner {
				return violf(P, "owner-changed", "owner of consumer %s changed from %s to %s without an accepted transfer by the owner (transfers %v)", id, w.OwnerName(preOwner), w.OwnerName(co.Owner), ownerMoves[id])
			}
			w.Label("owner-transferred")
		}
		// validator-owned records
		pre := m.preVal[id]
		if pre == nil || co.Phase == world.PhDeleted {
			continue
		}
		post := m.valState(w, &co)
		bpe := k.GetBlocksPerEpoch(ctx)
		epoch := r.Block.Height%bpe == 0
		launchedNow := m.preCons[id] != nil && m.preCons[id].Phase == world.PhInit && co.Phase != world.PhInit
		obs := w.ObserveVals()
		for name, before := range pre {
			after := post[name]
			if before == after || valTouched[id][name] {
				continue
			}
			if !obs[name].Exists {
				continue // validator removed from staking: its records are deleted by the hook
			}
			// automatic opt-in of Top-N validators happens at epochs and at launch, and only adds the record
			// (the Top-N value in force when the epoch ran may be the one from before the block: a governance
			// proposal executed in the same block, after the provider's end-blocker, can have cleared it)
			topN := co.Shaping.Top_N > 0 || (m.preCons[id] != nil && m.preCons[id].Shaping.Top_N > 0)
			if (epoch || launchedNow) && topN && strings.Replace(before, "optedin=false", "optedin=true", 1) == after {
				continue
			}
			return violf(P, "validator-record-changed", "consumer %s: records of validator %s changed from [%s] to [%s] in block %d without an accepted message signed by its operator", id, name, before, after, r.Block.Height)
		}
	}
	p := k.GetParams(ctx)
	if p.String() != m.preParams && !paramsChanged {
		return violf(P, "params-changed", "provider parameters changed without an executed governance proposal")
	}
	d := k.GetAllConsumerRewardDenoms(ctx)
	sort.Strings(d)
	if strings.Join(d, ",") != m.preDenoms && !denomsChanged {
		return violf(P, "denoms-changed", "global reward denoms changed from [%s] to %v without an executed governance proposal", m.preDenoms, d)
	}
	return nil
}

func worldAddr(w *world.World, name string) string {
	if name == "gov" {
		return sim.GovAddr()
	}
	if strings.HasPrefix(name, "!") {
		return name[1:]
	}
	if a, ok := w.P.Accounts[name]; ok {
		return a.Bech32()
	}
	return sim.NewAccount(name).Bech32()
}

func (m *C14) NonTrivial(*world.World) bool {
	return m.classes["sender:owner/accepted"] && (m.classes["sender:stranger/rejected"] || m.classes["sender:other-validator/rejected"] || m.classes["sender:non-authority/rejected"])
}
func (m *C14) Checks() int { return m.n }

func providerAddr(w *world.World, name string) providertypes.ProviderConsAddress {
	return providertypes.NewProviderConsAddress(w.ConsAddrOf(name))
}
