package oracle

import (
	"fmt"
	"sort"

	"cosmossdk.io/math"

	stakingtypes "github.com/cosmos/cosmos-sdk/x/staking/types"

	"verif/harness/sim"
	"verif/harness/world"
)

// C15: the provider's own consensus set is the top-M bonded validators.
type C15 struct {
	prev      map[string]int64 // recorded set after the previous block: pubkey -> power
	prevMembers map[string]bool // validator names
	prevBonded  map[string]bool
	n         int
	up, down  bool
}

func NewC15(w *world.World) *C15 {
	m := &C15{}
	// before block 1 the stores are not readable: the previous set is the one InitChain returned
	m.prev = sim.SetAsMap(w.P.Vals)
	return m
}

func cvMap(cvs []world.CV) map[string]int64 {
	m := map[string]int64{}
	for _, c := range cvs {
		m[c.PubKey] = c.Power
	}
	return m
}

func mapsEqual(a, b map[string]int64) bool {
	if len(a) != len(b) {
		return false
	}
	for k, v := range a {
		if bv, ok := b[k]; !ok || bv != v {
			return false
		}
	}
	return true
}

func fmtMap(m map[string]int64) string {
	ks := sim.SortedKeys(m)
	s := "{"
	for _, k := range ks {
		s += fmt.Sprintf("%s:%d ", k[:8], m[k])
	}
	return s + "}"
}

func (m *C15) Before(*world.World, *world.Action) {}

func (m *C15) After(w *world.World, a *world.Action, r *world.StepResult) *Violation {
	if r.Block == nil || r.Chain != "provider" || r.Block.Failed() {
		return nil
	}
	const P = "C15"
	m.n++
	rec := w.ProviderRecordedSet()
	recMap := cvMap(rec)
	if len(recMap) != len(rec) {
		return violf(P, "dup-key", "recorded provider set has duplicate keys: %v", rec)
	}
	// (1) engine-side set (after applying this block's updates) equals the recorded set
	engine := sim.SetAsMap(w.P.NextVals)
	if !mapsEqual(engine, recMap) {
		return violf(P, "engine-vs-recorded", "engine set %s != recorded set %s at height %d", fmtMap(engine), fmtMap(recMap), r.Block.Height)
	}
	// (5) the updates are exactly the diff to the previously recorded set
	want := map[string]int64{}
	for k, p := range recMap {
		if pp, ok := m.prev[k]; !ok || pp != p {
			want[k] = p
		}
	}
	for k := range m.prev {
		if _, ok := recMap[k]; !ok {
			want[k] = 0
		}
	}
	got := map[string]int64{}
	for _, u := range r.Block.Resp.ValidatorUpdates {
		k := fmt.Sprintf("%X", u.PubKey.GetEd25519())
		if _, dup := got[k]; dup {
			return violf(P, "dup-update", "duplicate validator update for key %s at height %d", k[:8], r.Block.Height)
		}
		got[k] = u.Power
	}
	if !mapsEqual(got, want) {
		return violf(P, "updates-not-diff", "updates %s are not the diff %s between recorded sets at height %d", fmtMap(got), fmtMap(want), r.Block.Height)
	}

	// staking view
	obs := w.ObserveVals()
	maxVal := w.P.PApp.ProviderKeeper.GetMaxProviderConsensusValidators(w.P.Ctx())
	var bonded []world.ValObs
	byKey := map[string]world.ValObs{}
	for _, name := range w.ValOrder {
		o := obs[name]
		if o.Exists {
			byKey[o.PubKeyHex] = o
			if o.Status == stakingtypes.Bonded {
				bonded = append(bonded, o)
			}
		}
	}
	// (2) size
	wantSize := int(maxVal)
	if len(bonded) < wantSize {
		wantSize = len(bonded)
	}
	if len(rec) != wantSize {
		return violf(P, "size", "recorded set has %d members, want min(M=%d, bonded=%d) at height %d", len(rec), maxVal, len(bonded), r.Block.Height)
	}
	// (3) members are bonded validators with provider key and last power
	members := map[string]bool{}
	minPower := int64(1 << 62)
	for _, c := range rec {
		o, ok := byKey[c.PubKey]
		if !ok {
			return violf(P, "member-unknown", "member key %s is no validator's provider key", c.PubKey[:8])
		}
		if o.Status != stakingtypes.Bonded {
			return violf(P, "member-not-bonded", "member %s is %s", o.Name, o.Status)
		}
		if o.LastPower != c.Power {
			return violf(P, "member-power", "member %s has power %d, staking last power %d", o.Name, c.Power, o.LastPower)
		}
		if fmt.Sprintf("%X", []byte(o.ConsAddr)) != c.ProvAddr {
			return violf(P, "member-addr", "member %s address mismatch", o.Name)
		}
		members[o.Name] = true
		if c.Power < minPower {
			minPower = c.Power
		}
	}
	// (4) no bonded non-member strictly outranks a member
	for _, o := range bonded {
		if !members[o.Name] && o.LastPower > minPower {
			return violf(P, "not-top-M", "bonded non-member %s (power %d) outranks a member (min power %d)", o.Name, o.LastPower, minPower)
		}
	}
	// (6) staking views exposed to gov and mint cover exactly the members
	pk := w.P.PApp.ProviderKeeper
	ctx := w.P.Ctx()
	seen := map[string]bool{}
	sum := math.ZeroInt()
	err := pk.IterateBondedValidatorsByPower(ctx, func(_ int64, v stakingtypes.ValidatorI) bool {
		seen[v.GetOperator()] = true
		sum = sum.Add(v.GetBondedTokens())
		return false
	})
	if err != nil {
		return violf(P, "iterate-error", "IterateBondedValidatorsByPower: %v", err)
	}
	var seenNames, memberNames []string
	for _, o := range bonded {
		if seen[o.Operator] {
			seenNames = append(seenNames, o.Name)
		}
	}
	for n := range members {
		memberNames = append(memberNames, n)
	}
	sort.Strings(seenNames)
	sort.Strings(memberNames)
	if len(seen) != len(members) || fmt.Sprint(seenNames) != fmt.Sprint(memberNames) {
		return violf(P, "iterate-cover", "IterateBondedValidatorsByPower covers %v (%d), members are %v", seenNames, len(seen), memberNames)
	}
	tb, err := pk.TotalBondedTokens(ctx)
	if err != nil || !tb.Equal(sum) {
		return violf(P, "total-bonded", "TotalBondedTokens=%v err=%v, members hold %v", tb, err, sum)
	}
	memberTokens := math.ZeroInt()
	for _, o := range bonded {
		if members[o.Name] {
			memberTokens = memberTokens.Add(o.Tokens)
		}
	}
	if !tb.Equal(memberTokens) {
		return violf(P, "total-bonded", "TotalBondedTokens=%v, members' tokens %v", tb, memberTokens)
	}
	supply, _ := pk.StakingTokenSupply(ctx)
	ratio, err := pk.BondedRatio(ctx)
	if err != nil {
		return violf(P, "bonded-ratio", "BondedRatio: %v", err)
	}
	if supply.IsPositive() {
		wantRatio := math.LegacyNewDecFromInt(memberTokens).QuoInt(supply)
		if !ratio.Equal(wantRatio) {
			return violf(P, "bonded-ratio", "BondedRatio=%v want %v", ratio, wantRatio)
		}
	}

	// labels: crossing M (member before/after while bonded both times)
	if m.prevMembers != nil {
		for _, o := range bonded {
			was, is := m.prevMembers[o.Name], members[o.Name]
			if !was && is && m.prevBonded[o.Name] {
				m.up = true
				w.Label("cross-M-up")
			}
		}
		for n := range m.prevMembers {
			if !members[n] {
				if o := obs[n]; o.Exists && o.Status == stakingtypes.Bonded {
					m.down = true
					w.Label("cross-M-down")
				}
			}
		}
	}
	m.prevBonded = map[string]bool{}
	for _, o := range bonded {
		m.prevBonded[o.Name] = true
	}
	m.prev = recMap
	m.prevMembers = members
	return nil
}

func (m *C15) NonTrivial(*world.World) bool { return m.up && m.down }
func (m *C15) Checks() int                  { return m.n }
