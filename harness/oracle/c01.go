package oracle

import (
	"fmt"
	"strconv"

	cryptocodec "github.com/cosmos/cosmos-sdk/crypto/codec"

	consumertypes "github.com/cosmos/interchain-security/v7/x/ccv/consumer/types"
	providertypes "github.com/cosmos/interchain-security/v7/x/ccv/provider/types"
	ccvtypes "github.com/cosmos/interchain-security/v7/x/ccv/types"

	"verif/harness/sim"
	"verif/harness/world"
)

// consRec is the per-consumer recording shared by C01 and C12.
type consRec struct {
	s0       map[string]int64            // launch-time set
	stored   map[uint64]map[string]int64 // vsc id -> set the provider stored in the epoch that used that id
	lastSeen map[string]int64
	pkts     []ccvtypes.ValidatorSetChangePacketData // VSC packets in the provider's send order
	sendEpoch map[uint64]int                          // vsc id -> number of provider epochs when it was created
	delivered int                                     // number of VSC packets delivered to the consumer so far
	recvBlock []int64                                 // consumer height at which packet i was delivered
	lateSeen, batchSeen, memberChange bool
	chanOpenHeight int64
}

// Recorder follows both chains and records what the provider decided for every consumer.
type Recorder struct {
	cons      map[string]*consRec
	epochs    int
	idHeight  map[uint64]int64 // vsc id -> provider height of the epoch block that used it
	curID     uint64
	haveID    bool
	heightLog map[string]map[int64]uint64 // consumer -> consumer height h -> id associated with h
}

func newRecorder() *Recorder {
	return &Recorder{cons: map[string]*consRec{}, idHeight: map[uint64]int64{}, heightLog: map[string]map[int64]uint64{}}
}

func decodeVSC(data []byte) (ccvtypes.ValidatorSetChangePacketData, bool) {
	var d ccvtypes.ValidatorSetChangePacketData
	if err := ccvtypes.ModuleCdc.UnmarshalJSON(data, &d); err != nil {
		return d, false
	}
	return d, true
}

func applyUpdates(set map[string]int64, d ccvtypes.ValidatorSetChangePacketData) map[string]int64 {
	out := map[string]int64{}
	for k, v := range set {
		out[k] = v
	}
	for _, u := range d.ValidatorUpdates {
		k := fmt.Sprintf("%X", u.PubKey.GetEd25519())
		if u.Power == 0 {
			delete(out, k)
		} else {
			out[k] = u.Power
		}
	}
	return out
}

// observeProviderBlock updates the recording after a provider block; returns a violation of the provider-side
// clauses of C12 (prop) if any.
func (rc *Recorder) observeProviderBlock(w *world.World, r *world.StepResult, prop string) *Violation {
	ctx := w.P.Ctx()
	k := w.P.PApp.ProviderKeeper
	id := k.GetValidatorSetUpdateId(ctx)
	bpe := k.GetBlocksPerEpoch(ctx)
	epoch := r.Block.Height%bpe == 0
	if rc.haveID {
		want := rc.curID
		if epoch {
			want++
		}
		if id != want {
			return violf(prop, "vscid-step", "provider validator-set update id went from %d to %d in block %d (epoch block: %v)", rc.curID, id, r.Block.Height, epoch)
		}
	}
	if epoch {
		rc.epochs++
		rc.idHeight[id-1] = r.Block.Height
	}
	rc.curID, rc.haveID = id, true
	for old, h := range rc.idHeight {
		got, found := k.GetValsetUpdateBlockHeight(ctx, old)
		if !found || int64(got) != h+1 {
			return violf(prop, "vscid-height", "validator-set update id %d maps to provider height %d (found %v), want %d = the block after the epoch block %d that produced it", old, got, found, h+1, h)
		}
	}
	f := w.F()
	if f == nil {
		return nil
	}
	for _, cid := range f.Order {
		p := f.Paths[cid]
		rec := rc.cons[cid]
		if rec == nil {
			gen, ok := k.GetConsumerGenesis(ctx, cid)
			if !ok {
				continue
			}
			rec = &consRec{s0: map[string]int64{}, stored: map[uint64]map[string]int64{}, sendEpoch: map[uint64]int{}}
			for _, u := range gen.Provider.InitialValSet {
				rec.s0[fmt.Sprintf("%X", u.PubKey.GetEd25519())] = u.Power
			}
			rec.lastSeen = rec.s0
			rc.cons[cid] = rec
		}
		if epoch && k.GetConsumerPhase(ctx, cid) == world.PhLaunched {
			cur := cvMap(w.ConsumerRecordedSet(cid))
			rec.stored[id-1] = cur
			rec.lastSeen = cur
		}
		// VSC packets sent to this consumer, in send order
		n := 0
		for _, pr := range p.P2C {
			if pr.Packet.SourcePort != ccvtypes.ProviderPortID {
				continue
			}
			n++
			if n <= len(rec.pkts) {
				continue
			}
			d, ok := decodeVSC(pr.Packet.Data)
			if !ok {
				return violf(prop, "vsc-undecodable", "provider sent an undecodable packet to consumer %s", cid)
			}
			if len(rec.pkts) > 0 && d.ValsetUpdateId <= rec.pkts[len(rec.pkts)-1].ValsetUpdateId {
				return violf(prop, "vscid-order", "provider sent id %d to consumer %s after id %d", d.ValsetUpdateId, cid, rec.pkts[len(rec.pkts)-1].ValsetUpdateId)
			}
			rec.pkts = append(rec.pkts, d)
			rec.sendEpoch[d.ValsetUpdateId] = rc.epochs
		}
		if chID, ok := k.GetConsumerIdToChannelId(ctx, cid); ok && rec.chanOpenHeight == 0 && chID != "" {
			rec.chanOpenHeight = r.Block.Height
			w.Label("ccv-channel-open")
		}
		if len(rec.pkts) > 0 {
			w.Label("vsc-sent")
		}
	}
	return nil
}

// deliveredCount counts VSC packets delivered to the consumer (acknowledgement written on the consumer).
func deliveredVSC(p *world.Path) int {
	n := 0
	for _, pr := range p.P2C {
		if pr.Packet.SourcePort == ccvtypes.ProviderPortID && pr.Delivered {
			n++
		}
	}
	return n
}

// C01: consumer validator sets replicate the provider's decisions, in order.
type C01 struct {
	rc *Recorder
	n  int
	nt bool
}

func NewC01(w *world.World) *C01 { return &C01{rc: newRecorder()} }

func (m *C01) Before(*world.World, *world.Action) {}

func ccMap(vals []consumertypes.CrossChainValidator) (map[string]int64, error) {
	out := map[string]int64{}
	for _, v := range vals {
		pk, err := v.ConsPubKey()
		if err != nil {
			return nil, err
		}
		tm, err := cryptocodec.ToCmtProtoPublicKey(pk)
		if err != nil {
			return nil, err
		}
		out[fmt.Sprintf("%X", tm.GetEd25519())] = v.Power
	}
	return out, nil
}

func (m *C01) After(w *world.World, a *world.Action, r *world.StepResult) *Violation {
	const P = "C01"
	if r.Block == nil || r.Block.Failed() {
		return nil
	}
	if r.Chain == "provider" {
		if v := m.rc.observeProviderBlock(w, r, P); v != nil && (v.Sig == "vscid-order" || v.Sig == "vsc-undecodable") {
			return v
		}
		// (iv) the provider's diffs are consistent with its own stored sets
		for cid, rec := range m.rc.cons {
			set := rec.s0
			for _, d := range rec.pkts {
				set = applyUpdates(set, d)
				if st, ok := rec.stored[d.ValsetUpdateId]; ok {
					m.n++
					if !mapsEqual(set, st) {
						return violf(P, "diff-vs-stored", "consumer %s: replaying the provider's packets up to id %d gives %s, but the provider stored %s for that epoch", cid, d.ValsetUpdateId, fmtMap(set), fmtMap(st))
					}
				} else {
					return violf(P, "packet-without-epoch", "consumer %s: packet with id %d was not produced in an epoch block recorded by the harness", cid, d.ValsetUpdateId)
				}
			}
		}
		return nil
	}
	f := w.F()
	p := f.Paths[r.Chain]
	rec := m.rc.cons[r.Chain]
	if p == nil || rec == nil || r.Block.EngineHalt != "" {
		return nil
	}
	m.n++
	C := p.C
	// (iii) deliveries follow the send order without gaps
	nDel := deliveredVSC(p)
	idx := 0
	for _, pr := range p.P2C {
		if pr.Packet.SourcePort != ccvtypes.ProviderPortID {
			continue
		}
		if pr.Delivered != (idx < nDel) {
			return violf(P, "delivery-gap", "consumer %s: VSC packet number %d delivered=%v although %d packets were delivered in total", r.Chain, idx, pr.Delivered, nDel)
		}
		idx++
	}
	if nDel > len(rec.pkts) {
		return violf(P, "delivery-unknown", "consumer %s received %d VSC packets, the provider was seen sending %d", r.Chain, nDel, len(rec.pkts))
	}
	newly := nDel - rec.delivered
	for i := rec.delivered; i < nDel; i++ {
		rec.recvBlock = append(rec.recvBlock, r.Block.Height)
		if m.rc.epochs-rec.sendEpoch[rec.pkts[i].ValsetUpdateId] >= 2 {
			rec.lateSeen = true
			w.Label("late-delivery")
		}
	}
	if newly >= 2 {
		rec.batchSeen = true
		w.Label("batch>=2")
	}
	if newly >= 3 {
		w.Label("batch>=3")
	}
	rec.delivered = nDel
	if nDel >= 1 {
		w.Label("vsc-delivered")
	}
	if nDel >= 2 {
		w.Label("vsc-delivered>=2")
	}
	if rec.memberChange {
		w.Label("member-change")
	}
	want := rec.s0
	prev := rec.s0
	for i := 0; i < nDel; i++ {
		prev = want
		want = applyUpdates(want, rec.pkts[i])
		if len(prev) != len(want) {
			rec.memberChange = true
		} else {
			for k := range want {
				if _, ok := prev[k]; !ok {
					rec.memberChange = true
				}
			}
		}
	}
	if nDel > 0 {
		if st, ok := rec.stored[rec.pkts[nDel-1].ValsetUpdateId]; ok {
			want = st
		}
	}
	// (i) the consumer module's set
	got, err := ccMap(C.CApp.ConsumerKeeper.GetAllCCValidator(C.Ctx()))
	if err != nil {
		return violf(P, "cc-undecodable", "consumer %s stores an undecodable validator: %v", r.Chain, err)
	}
	if !mapsEqual(got, want) {
		return violf(P, "consumer-set", "consumer %s after block %d stores %s, but the set of the last delivered packet (number %d of %d sent) is %s", r.Chain, r.Block.Height, fmtMap(got), nDel, len(rec.pkts), fmtMap(want))
	}
	// (ii) what its consensus engine was handed
	engine := sim.SetAsMap(C.NextVals)
	if !mapsEqual(engine, want) {
		return violf(P, "engine-set", "consumer %s after block %d: consensus engine has %s, provider decided %s", r.Chain, r.Block.Height, fmtMap(engine), fmtMap(want))
	}
	if nDel >= 2 && rec.memberChange {
		m.nt = true
	}
	if rec.chanOpenHeight > 0 && len(rec.pkts) > 0 && m.rc.epochs >= 3 && rec.sendEpoch[rec.pkts[0].ValsetUpdateId] >= 3 {
		w.Label("late-channel")
	}
	return nil
}

func (m *C01) NonTrivial(*world.World) bool { return m.nt }
func (m *C01) Checks() int                  { return m.n }

var (
	_ = strconv.Itoa
	_ = providertypes.ModuleName
)
