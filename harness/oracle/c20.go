package oracle

import (
	"fmt"
	"time"

	"cosmossdk.io/math"

	providertypes "github.com/cosmos/interchain-security/v7/x/ccv/provider/types"

	"verif/harness/world"
)

// infra is the comparable form of a consumer's infraction parameters.
type infra struct {
	DSJail time.Duration
	DSFrac string
	DSTomb bool
	DTJail time.Duration
	DTFrac string
	DTTomb bool
}

func infraFromChain(p providertypes.InfractionParameters) infra {
	var i infra
	if p.DoubleSign != nil {
		i.DSJail, i.DSFrac, i.DSTomb = p.DoubleSign.JailDuration, p.DoubleSign.SlashFraction.String(), p.DoubleSign.Tombstone
	}
	if p.Downtime != nil {
		i.DTJail, i.DTFrac, i.DTTomb = p.Downtime.JailDuration, p.Downtime.SlashFraction.String(), p.Downtime.Tombstone
	}
	return i
}

func mergeInfra(cur infra, s *world.InfractionSpec) infra {
	out := cur
	if s.HasDS {
		out.DSJail, out.DSFrac, out.DSTomb = time.Duration(s.DSJail)*time.Second, math.LegacyMustNewDecFromStr(s.DSFrac).String(), s.DSTomb
	}
	if s.HasDT {
		out.DTJail, out.DTFrac, out.DTTomb = time.Duration(s.DTJail)*time.Second, math.LegacyMustNewDecFromStr(s.DTFrac).String(), false
	}
	return out
}

type pendingInfra struct {
	P   infra
	Due time.Time
	Seq int
}

// C20: infraction parameters in force are used; changes are delayed by unbonding (reference timeline B5).
type C20 struct {
	n       int
	inForce map[string]infra
	pending map[string]*pendingInfra
	phase   map[string]providertypes.ConsumerPhase

	prePhase map[string]providertypes.ConsumerPhase
	seq      int
	switched, cancelled, replaced bool
}

func NewC20(w *world.World) *C20 {
	return &C20{inForce: map[string]infra{}, pending: map[string]*pendingInfra{}, phase: map[string]providertypes.ConsumerPhase{}}
}

func (m *C20) Before(w *world.World, a *world.Action) {
	if a.Kind != world.KBlock || (a.Chain != "" && a.Chain != "provider") || w.P.Height == 0 {
		return
	}
	m.prePhase = map[string]providertypes.ConsumerPhase{}
	ctx := w.P.Ctx()
	for _, id := range w.ConsumerIDs() {
		m.prePhase[id] = w.P.PApp.ProviderKeeper.GetConsumerPhase(ctx, id)
	}
}

func (m *C20) defaults(w *world.World) infra {
	cfg := w.Cfg.Provider
	return infra{
		DSJail: time.Duration(1<<63 - 1), DSFrac: math.LegacyMustNewDecFromStr(cfg.SlashDoubleSign).String(), DSTomb: true,
		DTJail: cfg.DowntimeJailDuration, DTFrac: math.LegacyZeroDec().String(), DTTomb: false,
	}
}

func (m *C20) After(w *world.World, a *world.Action, r *world.StepResult) *Violation {
	if r.Block == nil || r.Chain != "provider" || r.Block.Failed() || m.prePhase == nil {
		return nil
	}
	const P = "C20"
	ctx := w.P.Ctx()
	k := w.P.PApp.ProviderKeeper
	T := r.Block.Time
	ub, _ := w.P.PApp.StakingKeeper.UnbondingTime(ctx)
	m.n++

	post := map[string]providertypes.ConsumerPhase{}
	for _, id := range w.ConsumerIDs() {
		post[id] = k.GetConsumerPhase(ctx, id)
		pre, existed := m.prePhase[id]
		switch {
		case !existed:
			m.phase[id] = providertypes.CONSUMER_PHASE_UNSPECIFIED
		case pre == world.PhInit && (post[id] == world.PhLaunched || post[id] == world.PhStopped):
			m.phase[id] = world.PhLaunched
		case pre == world.PhStopped && post[id] == world.PhDeleted:
			m.phase[id] = world.PhDeleted
			delete(m.pending, id)
		default:
			m.phase[id] = pre
		}
	}
	// BeginBlock: due changes are applied (at most 200 per block, in schedule order: by due time, then by
	// the order in which they were scheduled)
	type dueItem struct {
		id  string
		due time.Time
		seq int
	}
	var due []dueItem
	for id, p := range m.pending {
		if !p.Due.After(T) {
			due = append(due, dueItem{id, p.Due, p.Seq})
		}
	}
	sortDue := func(i, j int) bool {
		if !due[i].due.Equal(due[j].due) {
			return due[i].due.Before(due[j].due)
		}
		return due[i].seq < due[j].seq
	}
	sortSlice(len(due), sortDue, func(i, j int) { due[i], due[j] = due[j], due[i] })
	if len(due) > 200 {
		w.Label(">200-infraction-updates-due")
		due = due[:200]
	}
	for _, d := range due {
		m.inForce[d.id] = m.pending[d.id].P
		delete(m.pending, d.id)
		m.switched = true
		w.Label("switch-observed")
	}

	apply := func(act world.Action, ok bool) {
		switch act.Kind {
		case world.KCreateConsumer:
			if !ok {
				return
			}
			for _, id := range w.ConsumerIDs() {
				if m.phase[id] == providertypes.CONSUMER_PHASE_UNSPECIFIED {
					m.phase[id] = world.PhReg
					base := m.defaults(w)
					if act.Spec != nil && act.Spec.Infraction != nil {
						base = mergeInfra(base, act.Spec.Infraction)
					}
					m.inForce[id] = base
					break
				}
			}
		case world.KRemoveConsumer:
			if ok {
				m.phase[act.Consumer] = world.PhStopped
			}
		case world.KUpdateConsumer:
			if !ok || act.Spec == nil || act.Spec.Infraction == nil {
				return
			}
			id := act.Consumer
			next := mergeInfra(m.inForce[id], act.Spec.Infraction)
			if m.phase[id] == world.PhLaunched {
				had := m.pending[id] != nil
				delete(m.pending, id)
				if next == m.inForce[id] {
					if had {
						m.cancelled = true
						w.Label("pending-cancelled")
					}
					return
				}
				if had {
					m.replaced = true
					w.Label("pending-replaced")
				}
				m.seq++
				m.pending[id] = &pendingInfra{P: next, Due: T.Add(ub), Seq: m.seq}
			} else {
				m.inForce[id] = next
			}
		}
	}
	for _, tx := range r.Txs {
		if tx.Action.Kind == world.KMulti {
			for _, s := range tx.Action.Sub {
				s.Sender = tx.Action.Sender
				apply(s, tx.OK())
			}
			continue
		}
		apply(*tx.Action, tx.OK())
	}
	for _, g := range r.Gov {
		apply(*g.Action, g.Executed)
	}
	for _, id := range w.ConsumerIDs() {
		m.phase[id] = post[id]
	}

	// compare with the chain
	sched := map[string][]world.QueueItem{}
	for _, q := range w.ReadQueue(59) {
		sched[q.ID] = append(sched[q.ID], q)
	}
	for _, id := range w.ConsumerIDs() {
		got, err := k.GetInfractionParameters(ctx, id)
		if err != nil {
			return violf(P, "no-params", "consumer %s has no infraction parameters: %v", id, err)
		}
		if infraFromChain(got) != m.inForce[id] {
			return violf(P, "in-force-mismatch", "consumer %s (%s) at %s: parameters in force on chain %+v, reference timeline %+v (pending %+v)", id, post[id], T.Format(time.RFC3339), infraFromChain(got), m.inForce[id], m.pending[id])
		}
		q, qerr := k.GetQueuedInfractionParameters(ctx, id)
		p := m.pending[id]
		items := sched[id]
		if p == nil {
			if qerr == nil {
				return violf(P, "unexpected-pending", "consumer %s (%s) has a queued change %+v that the timeline does not expect", id, post[id], infraFromChain(q))
			}
			if len(items) != 0 {
				return violf(P, "stale-schedule", "consumer %s (%s) is listed in the update schedule %v without a pending change", id, post[id], items)
			}
			continue
		}
		if qerr != nil || infraFromChain(q) != p.P {
			return violf(P, "pending-mismatch", "consumer %s: queued change on chain %+v (err %v), timeline expects %+v", id, infraFromChain(q), qerr, p.P)
		}
		if len(items) != 1 || !items[0].Time.Equal(p.Due) {
			return violf(P, "schedule-mismatch", "consumer %s: scheduled %v, timeline expects exactly one entry at %s", id, items, p.Due)
		}
	}
	return nil
}


func sortSlice(n int, less func(i, j int) bool, swap func(i, j int)) {
	for i := 1; i < n; i++ {
		for j := i; j > 0 && less(j, j-1); j-- {
			swap(j, j-1)
		}
	}
}

func (m *C20) NonTrivial(*world.World) bool { return m.switched && (m.cancelled || m.replaced) }
func (m *C20) Checks() int                  { return m.n }

var _ = fmt.Sprint
