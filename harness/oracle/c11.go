package oracle

import (
	"os"
	"fmt"
	"sort"
	"time"

	channeltypes "github.com/cosmos/ibc-go/v10/modules/core/04-channel/types"
	ibcexported "github.com/cosmos/ibc-go/v10/modules/core/exported"

	providertypes "github.com/cosmos/interchain-security/v7/x/ccv/provider/types"
	ccvtypes "github.com/cosmos/interchain-security/v7/x/ccv/types"

	"verif/harness/world"
)

// C11: stopped consumers get no updates and are removed after the unbonding period.
type C11 struct {
	n int

	stopTime  map[string]time.Time
	stopUB    map[string]time.Duration
	atStop    map[string]map[string]string // footprint right after the stop
	channel   map[string]string
	prePhase  map[string]providertypes.ConsumerPhase
	preFP     map[string]map[string]string // per-consumer footprints before the block
	lastFP    map[string]map[string]string // last footprint seen while stopped
	existAtStop map[string]map[string]bool  // validators known to x/staking when the consumer stopped
	preVals   int
	sentSeen  map[string]int
	// TolerateOpenChannel is set by C19 when a fault was injected into the channel closing of a deletion
	TolerateOpenChannel func(w *world.World) bool
	deletedRich, multiTimeout bool
	stopKinds map[string]bool
}

func NewC11(w *world.World) *C11 {
	return &C11{stopTime: map[string]time.Time{}, stopUB: map[string]time.Duration{}, atStop: map[string]map[string]string{}, channel: map[string]string{}, sentSeen: map[string]int{}, stopKinds: map[string]bool{}, lastFP: map[string]map[string]string{}, existAtStop: map[string]map[string]bool{}}
}

var mayRemain = map[byte]bool{44: true, 45: true, 46: true, 47: true, 48: true, 49: true, 54: true, 55: true, 57: true}

// frozenWhileStopped are the per-consumer records that must not change between the stop and the deletion.
var frozenWhileStopped = map[byte]bool{7: true, 14: true, 16: true, 17: true, 22: true, 29: true, 31: true, 32: true, 36: true, 37: true, 39: true, 40: true, 56: true, 5: true}

func prefixOfKey(k string) (byte, bool) {
	if len(k) == 0 || k[0] == 'q' {
		return 0, false
	}
	return k[0], true
}

func (m *C11) Before(w *world.World, a *world.Action) {
	if a.Kind != world.KBlock || (a.Chain != "" && a.Chain != "provider") || w.P.Height == 0 {
		return
	}
	m.prePhase = map[string]providertypes.ConsumerPhase{}
	for _, id := range w.ConsumerIDs() {
		m.prePhase[id] = w.P.PApp.ProviderKeeper.GetConsumerPhase(w.P.Ctx(), id)
	}
	m.preFP, _ = world.Footprints(w.DumpStore(providertypes.StoreKey))
	m.preVals = 0
	for _, o := range w.ObserveVals() {
		if o.Exists {
			m.preVals++
		}
	}
}

func (m *C11) After(w *world.World, a *world.Action, r *world.StepResult) *Violation {
	const P = "C11"
	if r.Block == nil || r.Chain != "provider" || r.Block.Failed() || m.prePhase == nil {
		return nil
	}
	m.n++
	ctx := w.P.Ctx()
	k := w.P.PApp.ProviderKeeper
	T := r.Block.Time
	per, _ := world.Footprints(w.DumpStore(providertypes.StoreKey))
	ub, _ := w.P.PApp.StakingKeeper.UnbondingTime(ctx)

	deletedNow := 0
	for _, id := range w.ConsumerIDs() {
		if k.GetConsumerPhase(ctx, id) == world.PhDeleted && m.prePhase[id] == world.PhStopped {
			deletedNow++
		}
	}
	if deletedNow >= 2 {
		w.Label("deleted-together")
	}
	for _, id := range w.ConsumerIDs() {
		ph := k.GetConsumerPhase(ctx, id)
		fp := per[id]
		if ph == world.PhStopped {
			nq := 0
			for key := range fp {
				if len(key) > 3 && key[:3] == "q52" {
					nq++
				}
			}
			if nq >= 2 {
				w.Label("stopped-repeatedly")
			}
		}
		if chID, ok := k.GetConsumerIdToChannelId(ctx, id); ok {
			m.channel[id] = chID
		}
		stop, stopped := m.stopTime[id]
		if !stopped && (ph == world.PhStopped || (ph == world.PhDeleted && m.prePhase[id] == world.PhLaunched)) {
			// stopped in this block
			m.stopTime[id] = T
			m.stopUB[id] = ub
			m.atStop[id] = fp
			m.existAtStop[id] = map[string]bool{}
			for name, o := range w.ObserveVals() {
				if o.Exists {
					m.existAtStop[id][name] = true
				}
			}
			stop, stopped = T, true
			kind := "tx"
			for _, tx := range r.Txs {
				if tx.Action != nil && tx.Action.Kind == world.KRelay && tx.Action.Relay != nil && tx.Action.Relay.Op == "timeout" && tx.OK() {
					kind = "timeout"
				}
				if tx.Action != nil && tx.Action.Kind == world.KRelay && tx.Action.Relay != nil && tx.Action.Relay.Op == "ack" && tx.Action.Relay.Dir == "p2c" && tx.OK() {
					kind = "error-ack"
				}
			}
			if os.Getenv("VERIF_DEBUG_STOP") != "" {
				ks := ""
				for _, tx := range r.Txs {
					if tx.Action != nil {
						ks += tx.Action.Kind
						if tx.Action.Relay != nil {
							ks += ":" + tx.Action.Relay.Op
						}
						if tx.OK() {
							ks += "+ "
						} else {
							ks += "- "
						}
					}
				}
				w.Label("stopblock:" + kind + ":" + ks)
			}
			m.stopKinds[kind] = true
			w.Label("stop:" + kind)
			// the stop itself keeps the client binding, the channel binding, the evidence floor and the assigned
			// keys (unless a validator's own message of this block changed its key or a validator was removed)
			if v := m.stopKeeps(w, id, fp, r); v != nil {
				return v
			}
			rt, err := k.GetConsumerRemovalTime(ctx, id)
			if err != nil || !rt.Equal(T.Add(ub)) {
				return violf(P, "removal-time", "consumer %s stopped at %s: removal time %s (err %v), want stop + unbonding period %s", id, T.Format(time.RFC3339), rt, err, T.Add(ub).Format(time.RFC3339))
			}
			continue
		}
		if !stopped {
			continue
		}
		deadline := stop.Add(m.stopUB[id])
		if T.Before(deadline) {
			m.lastFP[id] = fp
			if ph != world.PhStopped {
				return violf(P, "phase-before-deadline", "consumer %s stopped at %s is %s at %s, before stop + unbonding period (%s)", id, stop.Format(time.RFC3339), ph, T.Format(time.RFC3339), deadline.Format(time.RFC3339))
			}
			// protocol state is frozen: no new validator set, no new queued packets, bindings and keys kept
			// (except the key records of a validator that x/staking removed meanwhile: the hook deletes them)
			valRemoved := false
			obsNow := w.ObserveVals()
			for name := range m.existAtStop[id] {
				if !obsNow[name].Exists {
					valRemoved = true
				}
			}
			for key, v := range m.atStop[id] {
				p, ok := prefixOfKey(key)
				if !ok || !frozenWhileStopped[p] {
					continue
				}
				if valRemoved && p == 22 {
					w.Label("stopped-key-record-of-removed-validator")
					continue
				}
				if cur, present := fp[key]; !present || cur != v {
					return violf(P, "changed-while-stopped", "consumer %s (stopped, deletion due %s): record under prefix %d changed or vanished at %s", id, deadline.Format(time.RFC3339), p, T.Format(time.RFC3339))
				}
			}
			for key := range fp {
				p, ok := prefixOfKey(key)
				// (slash acks, prefix 15, may still be recorded: a report for a non-launched consumer is acknowledged, C08)
				if ok && (p == 31 || p == 17) {
					if _, had := m.atStop[id][key]; !had {
						return violf(P, "updated-while-stopped", "consumer %s got a new record under prefix %d while stopped", id, p)
					}
				}
			}
			continue
		}
		// deadline reached: everything but descriptive records is gone
		if ph != world.PhDeleted {
			return violf(P, "not-deleted", "consumer %s stopped at %s is still %s at %s (deletion was due at %s)", id, stop.Format(time.RFC3339), ph, T.Format(time.RFC3339), deadline.Format(time.RFC3339))
		}
		var left []string
		for key := range fp {
			p, ok := prefixOfKey(key)
			if !ok {
				if len(key) > 3 && key[:3] == "q52" {
					continue // stale removal-queue entries disappear when their time passes
				}
				left = append(left, key)
				continue
			}
			if !mayRemain[p] {
				left = append(left, fmt.Sprintf("prefix %d", p))
			}
		}
		if len(left) > 0 {
			sort.Strings(left)
			return violf(P, "residue", "deleted consumer %s still owns provider state: %v", id, left)
		}
		if chID := m.channel[id]; chID != "" {
			if ch, ok := w.P.PApp.IBCKeeper.ChannelKeeper.GetChannel(ctx, ccvtypes.ProviderPortID, chID); ok && ch.State != channeltypes.CLOSED {
				// IBC refuses to close a channel whose light client is expired or frozen; nothing the provider module
				// can do about it, so the closure clause is only demanded while the client is active
				active := false
				if len(ch.ConnectionHops) > 0 {
					if conn, ok := w.P.PApp.IBCKeeper.ConnectionKeeper.GetConnection(ctx, ch.ConnectionHops[0]); ok {
						active = w.P.PApp.IBCKeeper.ClientKeeper.GetClientStatus(ctx, conn.ClientId) == ibcexported.Active
					}
				}
				if active && !(m.TolerateOpenChannel != nil && m.TolerateOpenChannel(w)) {
					return violf(P, "channel-open", "channel %s of deleted consumer %s is %s although its client is active", chID, id, ch.State)
				}
				w.Label("channel-left-open-client-not-active")
			}
		}
		if _, done := m.atStop[id]; done {
			kinds := map[byte]bool{}
			for key := range m.atStop[id] {
				if p, ok := prefixOfKey(key); ok {
					kinds[p] = true
				}
			}
			if len(kinds) >= 12 {
				m.deletedRich = true
				w.Label("deleted-rich-state")
			}
			for key := range m.lastFP[id] {
				if p, ok := prefixOfKey(key); ok && p == 15 {
					w.Label("deleted-with-slash-acks")
				}
			}
			w.Label("deleted")
			delete(m.atStop, id)
		}
	}

	// no packet leaves for a stopped consumer (F-world)
	if f := w.F(); f != nil {
		for _, cid := range f.Order {
			p := f.Paths[cid]
			stop, stopped := m.stopTime[cid]
			for i := m.sentSeen[cid]; i < len(p.P2C); i++ {
				pr := p.P2C[i]
				if stopped && pr.Packet.SourcePort == ccvtypes.ProviderPortID && pr.SentTime.After(stop) {
					return violf(P, "sent-after-stop", "the provider sent a validator-set packet to consumer %s at %s although it stopped at %s", cid, pr.SentTime.Format(time.RFC3339), stop.Format(time.RFC3339))
				}
			}
			m.sentSeen[cid] = len(p.P2C)
		}
	}
	return nil
}

func (m *C11) NonTrivial(*world.World) bool { return m.deletedRich }
func (m *C11) Checks() int                  { return m.n }

// keptAtStop are the records a stop must not touch (client id, channel id, evidence minimum height, assigned keys).
var keptAtStop = map[byte]bool{7: true, 5: true, 29: true, 22: true}

func (m *C11) stopKeeps(w *world.World, id string, fp map[string]string, r *world.StepResult) *Violation {
	if m.prePhase[id] != world.PhLaunched || w.P.PApp.ProviderKeeper.GetConsumerPhase(w.P.Ctx(), id) != world.PhStopped {
		return nil
	}
	keyTouched := false
	for _, tx := range r.Txs {
		if tx.Action == nil {
			continue
		}
		acts := []world.Action{*tx.Action}
		if tx.Action.Kind == world.KMulti {
			acts = tx.Action.Sub
		}
		for _, a := range acts {
			if (a.Kind == world.KAssignKey || a.Kind == world.KOptIn) && a.Consumer == id {
				keyTouched = true
			}
		}
	}
	vals := 0
	for _, o := range w.ObserveVals() {
		if o.Exists {
			vals++
		}
	}
	for key, v := range m.preFP[id] {
		p, ok := prefixOfKey(key)
		if !ok || !keptAtStop[p] {
			continue
		}
		if p == 22 && (keyTouched || vals < m.preVals) {
			continue
		}
		if cur, present := fp[key]; !present || cur != v {
			return violf("C11", "stop-dropped-state", "consumer %s was stopped in block %d and its record under prefix %d vanished or changed in that same block", id, r.Block.Height, p)
		}
		w.Label("stop-kept-state")
	}
	return nil
}
