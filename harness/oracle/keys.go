package oracle

import (
	"fmt"
	"sort"
	"time"

	providertypes "github.com/cosmos/interchain-security/v7/x/ccv/provider/types"

	"verif/harness/world"
)

// KeyModel is the reference key-assignment table of DESIGN.md appendix B3, used by C05 and C06.
// Keys are identified by their consensus address (hex upper), validators by name.
type oldKey struct {
	Val     string
	PruneTs time.Time // replacement time + unbonding period
}

type KeyModel struct {
	Prop string
	n    int

	cur   map[string]map[string]string // consumer -> validator -> key address
	old   map[string]map[string]oldKey // consumer -> key address -> owner, prune time
	phase map[string]providertypes.ConsumerPhase

	prePhase  map[string]providertypes.ConsumerPhase
	preExists map[string]bool

	// statistics for the non-trivial rules
	collisionRejected, reassignAfterPrune, createCollision bool
	oldBefore, oldAfter                                      bool
	everPruned                                               map[string]bool // consumer/key that was pruned once
}

func NewC05(w *world.World) *KeyModel { return newKeyModel("C05") }
func NewC06(w *world.World) *KeyModel { return newKeyModel("C06") }

func newKeyModel(prop string) *KeyModel {
	return &KeyModel{Prop: prop, cur: map[string]map[string]string{}, old: map[string]map[string]oldKey{}, phase: map[string]providertypes.ConsumerPhase{}, everPruned: map[string]bool{}}
}

func keyAddr(w *world.World, keyName string) string {
	return fmt.Sprintf("%X", []byte(w.Keys.Get(keyName).Addr()))
}

func active(ph providertypes.ConsumerPhase) bool {
	return ph == world.PhReg || ph == world.PhInit || ph == world.PhLaunched
}

func (m *KeyModel) Before(w *world.World, a *world.Action) {
	if a.Kind != world.KBlock || (a.Chain != "" && a.Chain != "provider") || w.P.Height == 0 {
		return
	}
	m.prePhase = map[string]providertypes.ConsumerPhase{}
	ctx := w.P.Ctx()
	for _, id := range w.ConsumerIDs() {
		m.prePhase[id] = w.P.PApp.ProviderKeeper.GetConsumerPhase(ctx, id)
	}
	m.preExists = map[string]bool{}
	for name, o := range w.ObserveVals() {
		m.preExists[name] = o.Exists
	}
}

// providerKeyOwner returns the name of the existing validator whose provider key has this address.
func providerKeyOwner(w *world.World, exists map[string]bool, addr string) string {
	for _, name := range w.ValOrder {
		vi := w.Vals[name]
		if vi.ProvKey != "" && exists[name] && keyAddr(w, vi.ProvKey) == addr {
			return name
		}
	}
	return ""
}

// owner of a key address on consumer c according to the model ("" if unknown)
func (m *KeyModel) knownOn(c, addr string) (string, bool, oldKey) {
	for v, k := range m.cur[c] {
		if k == addr {
			return v, true, oldKey{}
		}
	}
	if ok, found := m.old[c][addr]; found {
		return ok.Val, false, ok
	}
	return "", false, oldKey{}
}

func (m *KeyModel) After(w *world.World, a *world.Action, r *world.StepResult) *Violation {
	if r.Block == nil || r.Chain != "provider" || r.Block.Failed() || m.prePhase == nil {
		return nil
	}
	P := m.Prop
	ctx := w.P.Ctx()
	k := w.P.PApp.ProviderKeeper
	T := r.Block.Time
	ub, _ := w.P.PApp.StakingKeeper.UnbondingTime(ctx)
	m.n++

	// phases as they were while the txs of this block executed (BeginBlock launches / deletions applied)
	post := map[string]providertypes.ConsumerPhase{}
	for _, id := range w.ConsumerIDs() {
		post[id] = k.GetConsumerPhase(ctx, id)
		pre, existed := m.prePhase[id]
		switch {
		case !existed:
			m.phase[id] = providertypes.CONSUMER_PHASE_UNSPECIFIED // created by a tx of this block
		case pre == world.PhInit && (post[id] == world.PhLaunched || post[id] == world.PhStopped):
			m.phase[id] = world.PhLaunched
		case pre == world.PhStopped && post[id] == world.PhDeleted:
			m.phase[id] = world.PhDeleted
			delete(m.cur, id)
			delete(m.old, id)
		case pre == world.PhInit && post[id] == world.PhReg && !touched(r, id):
			m.phase[id] = world.PhReg
		default:
			m.phase[id] = pre
		}
	}
	exists := map[string]bool{}
	for n, e := range m.preExists {
		exists[n] = e
	}
	postObs := w.ObserveVals()
	// a validator that existed before the block but not after it was removed at an unknown point of the block
	vanished := func(name string) bool { return m.preExists[name] && !postObs[name].Exists }

	var apply func(act world.Action, ok bool, log string, check bool) *Violation
	apply = func(act world.Action, ok bool, log string, check bool) *Violation {
		switch act.Kind {
		case world.KCreateConsumer:
			if ok {
				// the id is the next unused one in the model
				for _, id := range w.ConsumerIDs() {
					if m.phase[id] == providertypes.CONSUMER_PHASE_UNSPECIFIED {
						m.phase[id] = world.PhReg
						break
					}
				}
			}
		case world.KRemoveConsumer:
			if ok {
				m.phase[act.Consumer] = world.PhStopped
			}
		case world.KCreateValidator:
			addr := keyAddr(w, act.Key)
			if !check {
				if ok {
					exists[act.Sender] = true
				}
				return nil
			}
			collision := ""
			grey := false
			for _, c := range w.ConsumerIDs() {
				if !active(m.phase[c]) {
					continue
				}
				if v, isCur, o := m.knownOn(c, addr); v != "" {
					if !isCur && !o.PruneTs.After(T) {
						grey = true
						continue
					}
					collision = fmt.Sprintf("key is known on active consumer %s for validator %s", c, v)
				}
			}
			if collision != "" {
				m.createCollision = true
				w.Label("create-validator-collision")
				if ok {
					return violf(P, "create-validator-collision-accepted", "validator %s was created with consensus key %s although %s", act.Sender, act.Key, collision)
				}
				return nil
			}
			if ok {
				exists[act.Sender] = true
			} else if !grey && !exists[act.Sender] && providerKeyOwner(w, exists, addr) == "" && providerKeyEverUsed(w, addr) == "" {
				return violf(P, "create-validator-rejected", "validator %s with fresh consensus key %s could not be created: %s", act.Sender, act.Key, log)
			}
		case world.KAssignKey, world.KOptIn:
			if act.Key == "" {
				return nil
			}
			c, v := act.Consumer, act.Val
			addr := keyAddr(w, act.Key)
			if check {
				if act.Sender != act.Val {
					return nil // rejected by the signer check (C14)
				}
				reject := ""
				grey := false
				if !active(m.phase[c]) {
					reject = fmt.Sprintf("consumer %s is not active (%s)", c, m.phase[c])
				} else if vanished(v) {
					grey = true
				} else if !exists[v] {
					reject = "validator " + v + " does not exist"
				} else if owner := providerKeyOwner(w, exists, addr); owner != "" && owner != v && vanished(owner) {
					grey = true
				} else if owner != "" && owner != v {
					reject = "key is the provider key of " + owner
				} else if owner == v && m.cur[c][v] == "" {
					reject = "own provider key without a previous assignment"
				} else if kv, isCur, o := m.knownOn(c, addr); kv != "" {
					if vanished(kv) {
						// the holder was removed from staking inside this block (its records are deleted by the hook);
						// whether that happened before or after this message is not observable
						grey = true
					} else if isCur {
						reject = "key is currently assigned to " + kv
					} else if o.PruneTs.After(T) {
						reject = fmt.Sprintf("key was replaced by %s less than an unbonding period ago (until %s)", kv, o.PruneTs.Format(time.RFC3339))
					} else {
						grey = true // past its deadline, pruned at the end of this block
					}
				}
				if reject != "" {
					m.collisionRejected = true
					w.Label("assign-collision-rejected")
					if ok {
						return violf(P, "colliding-assignment-accepted", "%s of key %s to %s on consumer %s at %s was accepted although %s", act.Kind, act.Key, v, c, T.Format(time.RFC3339), reject)
					}
					return nil
				}
				if !ok && !grey {
					return violf(P, "free-key-rejected", "%s of free key %s to %s on consumer %s (%s) was rejected: %s", act.Kind, act.Key, v, c, m.phase[c], log)
				}
				if ok && m.everPruned[c+"/"+addr] {
					m.reassignAfterPrune = true
					w.Label("reassign-after-prune")
				}
			}
			if ok {
				if m.cur[c] == nil {
					m.cur[c] = map[string]string{}
				}
				if prev := m.cur[c][v]; prev != "" {
					if m.phase[c] == world.PhLaunched {
						if m.old[c] == nil {
							m.old[c] = map[string]oldKey{}
						}
						m.old[c][prev] = oldKey{Val: v, PruneTs: T.Add(ub)}
						w.Label("key-replaced-on-launched")
					}
				}
				m.cur[c][v] = addr
				delete(m.old[c], addr) // only reachable in the grey zone
			}
		}
		return nil
	}

	for _, tx := range r.Txs {
		if tx.Action.Kind == world.KMulti {
			for _, s := range tx.Action.Sub {
				s.Sender = tx.Action.Sender
				if v := apply(s, tx.OK(), tx.Log, false); v != nil {
					return v
				}
			}
			continue
		}
		if v := apply(*tx.Action, tx.OK(), tx.Log, true); v != nil {
			return v
		}
	}
	for _, g := range r.Gov {
		if g.Action.Kind == world.KRemoveConsumer && g.Executed {
			m.phase[g.Action.Consumer] = world.PhStopped
		}
	}

	// end of block: validators removed from staking lose their current assignments; expired old keys are pruned
	obs := w.ObserveVals()
	for name, was := range exists {
		if was && !obs[name].Exists {
			for c := range m.cur {
				delete(m.cur[c], name)
			}
			w.Label("validator-removed")
		}
	}
	for _, id := range w.ConsumerIDs() {
		m.phase[id] = post[id]
		if post[id] == world.PhDeleted {
			delete(m.cur, id)
			delete(m.old, id)
			continue
		}
		if post[id] == world.PhLaunched || post[id] == world.PhStopped {
			for addr, o := range m.old[id] {
				if !o.PruneTs.After(T) {
					delete(m.old[id], addr)
					m.everPruned[id+"/"+addr] = true
					w.Label("old-key-pruned")
				}
			}
		}
	}

	// agreement between the table and the chain, and the uniqueness invariant
	nameByAddr := w.NameByConsAddr()
	for _, id := range w.ConsumerIDs() {
		if post[id] == world.PhDeleted {
			continue
		}
		idc := id
		chainCur := map[string]string{}
		for _, kp := range k.GetAllValidatorConsumerPubKeys(ctx, &idc) {
			name := nameByAddr[fmt.Sprintf("%X", kp.ProviderAddr)]
			ca, _ := world.ConsAddrOfProtoKey(kp.ConsumerKey)
			chainCur[name] = ca
		}
		if !strMapEqual(chainCur, m.cur[id]) {
			return violf(P, "table-cur-mismatch", "consumer %s (%s): assigned keys on chain %v differ from the reference table %v", id, post[id], fmtStrMap(chainCur), fmtStrMap(m.cur[id]))
		}
		chainBy := map[string]string{}
		for _, e := range k.GetAllValidatorsByConsumerAddr(ctx, &idc) {
			chainBy[fmt.Sprintf("%X", e.ConsumerAddr)] = nameByAddr[fmt.Sprintf("%X", e.ProviderAddr)]
		}
		want := map[string]string{}
		for v, addr := range m.cur[id] {
			if prev, dup := want[addr]; dup {
				return violf(P, "key-shared", "consumer %s: key %s is assigned to both %s and %s", id, addr[:8], prev, v)
			}
			want[addr] = v
		}
		for addr, o := range m.old[id] {
			if prev, dup := want[addr]; dup && prev != o.Val {
				return violf(P, "key-shared", "consumer %s: key %s belongs to %s and (recently replaced) to %s", id, addr[:8], prev, o.Val)
			}
			want[addr] = o.Val
		}
		if active(post[id]) || post[id] == world.PhStopped {
			if !strMapEqual(chainBy, want) {
				return violf(P, "table-by-addr-mismatch", "consumer %s (%s): consumer-address index on chain %v differs from the reference table %v", id, post[id], fmtStrMap(chainBy), fmtStrMap(want))
			}
		}
		if active(post[id]) {
			// no key known on an active consumer is the provider key of a different existing validator
			for addr, v := range want {
				for _, name := range w.ValOrder {
					if obs[name].Exists && name != v && fmt.Sprintf("%X", []byte(obs[name].ConsAddr)) == addr {
						return violf(P, "provider-key-collision", "consumer %s: key %s of validator %s is the provider key of validator %s", id, addr[:8], v, name)
					}
				}
			}
		}
		// C06: resolution of every known key
		if post[id] == world.PhLaunched || post[id] == world.PhStopped || active(post[id]) {
			for addr, v := range want {
				bz := hexToBytes(addr)
				got := k.GetProviderAddrFromConsumerAddr(ctx, id, providertypes.NewConsumerConsAddress(bz))
				if nameByAddr[fmt.Sprintf("%X", got.Address.Bytes())] != v {
					return violf(P, "resolve-wrong", "consumer %s: key %s resolves to %X, want validator %s", id, addr[:8], got.Address.Bytes(), v)
				}
				if _, isOld := m.old[id][addr]; isOld {
					m.oldBefore = true
					w.Label("old-key-before-deadline")
				}
			}
			for key := range m.everPruned {
				if len(key) > len(id)+1 && key[:len(id)+1] == id+"/" {
					addr := key[len(id)+1:]
					if _, again := want[addr]; again {
						continue
					}
					got := k.GetProviderAddrFromConsumerAddr(ctx, id, providertypes.NewConsumerConsAddress(hexToBytes(addr)))
					if fmt.Sprintf("%X", got.Address.Bytes()) != addr {
						return violf(P, "resolve-after-prune", "consumer %s: pruned key %s still resolves to %X", id, addr[:8], got.Address.Bytes())
					}
					m.oldAfter = true
					w.Label("old-key-after-deadline")
				}
			}
			// a never-assigned key resolves to the validator owning it as provider key (identity)
			for _, name := range w.ValOrder {
				vi := w.Vals[name]
				if vi.ProvKey == "" {
					continue
				}
				addr := keyAddr(w, vi.ProvKey)
				if _, known := want[addr]; known {
					continue
				}
				got := k.GetProviderAddrFromConsumerAddr(ctx, id, providertypes.NewConsumerConsAddress(hexToBytes(addr)))
				if fmt.Sprintf("%X", got.Address.Bytes()) != addr {
					return violf(P, "resolve-identity", "consumer %s: unassigned provider key of %s resolves to %X", id, name, got.Address.Bytes())
				}
			}
		}
	}
	return nil
}

// providerKeyEverUsed reports a validator (existing or not) that was created with this key; x/staking keeps
// rejecting a consensus key that was used before, independently of interchain security.
func providerKeyEverUsed(w *world.World, addr string) string {
	for _, name := range w.ValOrder {
		vi := w.Vals[name]
		if vi.ProvKey != "" && keyAddr(w, vi.ProvKey) == addr {
			return name
		}
	}
	return ""
}

func strMapEqual(a, b map[string]string) bool {
	if len(a) != len(b) {
		return false
	}
	for k, v := range a {
		if bv, ok := b[k]; !ok || bv != v {
			return false
		}
	}
	return true
}

func fmtStrMap(m map[string]string) string {
	var ks []string
	for k := range m {
		ks = append(ks, k)
	}
	sort.Strings(ks)
	s := "{"
	for _, k := range ks {
		kk, vv := k, m[k]
		if len(kk) > 8 {
			kk = kk[:8]
		}
		if len(vv) > 8 {
			vv = vv[:8]
		}
		s += kk + ":" + vv + " "
	}
	return s + "}"
}

func hexToBytes(h string) []byte {
	out := make([]byte, len(h)/2)
	for i := range out {
		fmt.Sscanf(h[2*i:2*i+2], "%02X", &out[i])
	}
	return out
}

func (m *KeyModel) NonTrivial(*world.World) bool {
	if m.Prop == "C06" {
		return m.oldBefore && m.oldAfter
	}
	return m.collisionRejected && (m.reassignAfterPrune || m.createCollision || m.oldBefore)
}
func (m *KeyModel) Checks() int { return m.n }
