package oracle

import (
	"fmt"
	"sort"

	"cosmossdk.io/math"

	sdk "github.com/cosmos/cosmos-sdk/types"
	authtypes "github.com/cosmos/cosmos-sdk/x/auth/types"
	distrtypes "github.com/cosmos/cosmos-sdk/x/distribution/types"

	transfertypes "github.com/cosmos/ibc-go/v10/modules/apps/transfer/types"

	consumertypes "github.com/cosmos/interchain-security/v7/x/ccv/consumer/types"
	providertypes "github.com/cosmos/interchain-security/v7/x/ccv/provider/types"

	"verif/harness/sim"
	"verif/harness/world"
)

// C16: rewards are conserved end to end and reach only eligible validators.
type C16 struct {
	n int

	// consumer side, per consumer chain
	cPre map[string]*consBal
	// provider side
	pPre    *provBal
	seenC2P map[string]int
	received map[string]map[string]math.Int // consumer -> provider denom -> total amount received in transfers
	payoutIneligible, payout bool
	// since: consumer -> provider address -> height of the block after which the validator was first seen in the
	// consumer's stored set without interruption (the oracle's own record of "has been validating since")
	since map[string]map[string]int64
}

type consBal struct {
	redistribute sdk.Coins
	toProvider   sdk.Coins
	collector    sdk.Coins
	lastTx       int64
}

type provBal struct {
	allowed  map[string]map[string]bool // consumer -> denoms payable for it (registered by governance or allow-listed by it)
	pool     sdk.Coins
	distr    sdk.Coins
	credits  map[string]sdk.DecCoins // consumer -> credited rewards (all denoms)
	outstanding map[string]sdk.DecCoins // validator name -> outstanding rewards
	community sdk.DecCoins
	commission map[string]sdk.DecCoins // validator name -> accumulated commission
	rates    map[string]map[string]math.LegacyDec // consumer -> validator name -> commission rate in force for that consumer's rewards
	custom   map[string]map[string]bool // consumer -> validator name -> a per-consumer rate is set
	exists   map[string]bool // validator name -> known to x/staking
	sets     map[string][]world.CV
	height   int64
}

func NewC16(w *world.World) *C16 {
	return &C16{cPre: map[string]*consBal{}, seenC2P: map[string]int{}, received: map[string]map[string]math.Int{}, since: map[string]map[string]int64{}}
}

func moduleAddr(name string) sdk.AccAddress { return authtypes.NewModuleAddress(name) }

func takeConsBal(c *sim.Consumer) *consBal {
	ctx := c.Ctx()
	bk := c.CApp.BankKeeper
	return &consBal{
		redistribute: bk.GetAllBalances(ctx, moduleAddr(consumertypes.ConsumerRedistributeName)),
		toProvider:   bk.GetAllBalances(ctx, moduleAddr(consumertypes.ConsumerToSendToProviderName)),
		collector:    bk.GetAllBalances(ctx, moduleAddr(authtypes.FeeCollectorName)),
		lastTx:       c.CApp.ConsumerKeeper.GetLastTransmissionBlockHeight(ctx).Height,
	}
}

func (m *C16) takeProvBal(w *world.World) *provBal {
	ctx := w.P.Ctx()
	k := w.P.PApp.ProviderKeeper
	bk := w.P.PApp.BankKeeper
	pb := &provBal{credits: map[string]sdk.DecCoins{}, outstanding: map[string]sdk.DecCoins{}, sets: map[string][]world.CV{}, height: w.P.Height}
	pb.pool = bk.GetAllBalances(ctx, moduleAddr(providertypes.ConsumerRewardsPool))
	pb.distr = bk.GetAllBalances(ctx, moduleAddr(distrtypes.ModuleName))
	denoms := map[string]bool{}
	for _, c := range pb.pool {
		denoms[c.Denom] = true
	}
	pb.allowed = map[string]map[string]bool{}
	global := k.GetAllConsumerRewardDenoms(ctx)
	for _, id := range w.ConsumerIDs() {
		pb.allowed[id] = map[string]bool{}
		for _, d := range global {
			pb.allowed[id][d] = true
		}
		if own, err := k.GetAllowlistedRewardDenoms(ctx, id); err == nil {
			for _, d := range own {
				pb.allowed[id][d] = true
			}
		}
	}
	for _, id := range w.ConsumerIDs() {
		var dc sdk.DecCoins
		for d := range denoms {
			if a, err := k.GetConsumerRewardsAllocationByDenom(ctx, id, d); err == nil {
				dc = dc.Add(a.Rewards...)
			}
		}
		pb.credits[id] = dc
		pb.sets[id] = w.ConsumerRecordedSet(id)
	}
	for _, name := range w.ValOrder {
		if r, err := w.P.PApp.DistrKeeper.GetValidatorOutstandingRewards(ctx, w.ValAddr(name)); err == nil {
			pb.outstanding[name] = r.Rewards
		}
	}
	if fp, err := w.P.PApp.DistrKeeper.FeePool.Get(ctx); err == nil {
		pb.community = fp.CommunityPool
	}
	pb.exists = map[string]bool{}
	for name, o := range w.ObserveVals() {
		pb.exists[name] = o.Exists
	}
	pb.commission = map[string]sdk.DecCoins{}
	pb.rates = map[string]map[string]math.LegacyDec{}
	pb.custom = map[string]map[string]bool{}
	for _, name := range w.ValOrder {
		if c, err := w.P.PApp.DistrKeeper.GetValidatorAccumulatedCommission(ctx, w.ValAddr(name)); err == nil {
			pb.commission[name] = c.Commission
		}
	}
	for _, id := range w.ConsumerIDs() {
		pb.rates[id] = map[string]math.LegacyDec{}
		pb.custom[id] = map[string]bool{}
		for _, name := range w.ValOrder {
			val, err := w.P.PApp.StakingKeeper.GetValidator(ctx, w.ValAddr(name))
			if err != nil {
				continue
			}
			rate := val.Commission.Rate
			if ca, err := val.GetConsAddr(); err == nil {
				if cr, found := k.GetConsumerCommissionRate(ctx, id, providertypes.NewProviderConsAddress(ca)); found {
					rate = cr
					pb.custom[id][name] = true
				}
			}
			pb.rates[id][name] = rate
		}
	}
	return pb
}

func (m *C16) Before(w *world.World, a *world.Action) {
	if a.Kind != world.KBlock {
		return
	}
	if a.Chain == "" || a.Chain == "provider" {
		if w.P.Height > 0 {
			m.pPre = m.takeProvBal(w)
		}
		return
	}
	if c := w.Consumer(a.Chain); c != nil && !c.Halted {
		m.cPre[a.Chain] = takeConsBal(c)
	}
}

func coinsOf(evAmount string) sdk.Coins {
	c, err := sdk.ParseCoinsNormalized(evAmount)
	if err != nil {
		return sdk.Coins{}
	}
	return c
}

func (m *C16) After(w *world.World, a *world.Action, r *world.StepResult) *Violation {
	const P = "C16"
	if r.Block == nil || r.Block.Failed() {
		return nil
	}
	if r.Chain != "provider" {
		return m.consumerBlock(w, r)
	}
	if m.pPre == nil {
		return nil
	}
	pre := m.pPre
	m.pPre = nil
	m.n++
	ctx := w.P.Ctx()
	k := w.P.PApp.ProviderKeeper
	post := m.takeProvBal(w)
	defer m.track(post, r.Block.Height)

	// amounts received in this block from consumers' reward transfers (credited per the memo's consumer id)
	recvNow := map[string]sdk.Coins{}
	for _, rec := range w.LastRecv {
		if rec.Packet.DestinationPort != transfertypes.PortID || ackKind(rec.Ack) == "error" {
			continue
		}
		var data transfertypes.FungibleTokenPacketData
		if err := transfertypes.ModuleCdc.UnmarshalJSON(rec.Packet.Data, &data); err != nil {
			continue
		}
		if data.Receiver != moduleAddr(providertypes.ConsumerRewardsPool).String() {
			continue
		}
		amt, ok := math.NewIntFromString(data.Amount)
		if !ok {
			continue
		}
		// the voucher denom on the provider
		denom := transfertypes.NewDenom(data.Denom, transfertypes.NewHop(rec.Packet.DestinationPort, rec.Packet.DestinationChannel)).IBCDenom()
		recvNow[rec.PathID] = recvNow[rec.PathID].Add(sdk.NewCoin(denom, amt))
		w.Label("reward-transfer-received")
	}

	// allocations of this block: distributed-rewards events
	allocated := map[string]sdk.DecCoins{}
	for _, e := range world.EventsOf(r.Block.Resp.Events, providertypes.EventTypeDistributedRewards) {
		id := world.Attr(e, providertypes.AttributeConsumerId)
		tot, err := sdk.ParseDecCoins(world.Attr(e, providertypes.AttributeRewardTotal))
		if err == nil {
			allocated[id] = allocated[id].Add(tot...)
		}
	}

	// credits: rise exactly by what was received, fall exactly by what left the pool
	var creditDrop sdk.DecCoins
	for _, id := range w.ConsumerIDs() {
		before, after := pre.credits[id], post.credits[id]
		want := before.Add(sdk.NewDecCoinsFromCoins(recvNow[id]...)...)
		// credit may only be consumed by an allocation of this block
		diff, neg := want.SafeSub(after)
		if neg {
			return violf(P, "credit-created", "consumer %s: credit went from %s to %s although only %s arrived in this block", id, before, after, recvNow[id])
		}
		if !diff.IsZero() {
			// only credits in denoms registered by governance or allow-listed by this consumer are paid out
			for _, dcoin := range diff {
				if !pre.allowed[id][dcoin.Denom] {
					return violf(P, "unlisted-denom-paid", "consumer %s: credit of %s was paid out although the denom is neither registered by governance nor allow-listed by that consumer", id, dcoin)
				}
			}
			creditDrop = creditDrop.Add(diff...)
			// eligible power as the allocation in BeginBlock saw it (the set stored before this block, this block's height)
			var eligiblePower int64
			for _, cv := range pre.sets[id] {
				if r.Block.Height-cv.JoinHeight >= k.GetNumberOfEpochsToStartReceivingRewards(ctx)*k.GetBlocksPerEpoch(ctx) {
					eligiblePower += cv.Power
				}
			}
			if eligiblePower == 0 {
				w.Label("payout-zero-power-to-community-pool")
			}
			if len(allocated[id]) == 0 && eligiblePower != 0 {
				// the zero-power branch emits no event; otherwise an allocation event must exist
				return violf(P, "credit-vanished", "consumer %s: credit dropped by %s in block %d without a rewards distribution", id, diff, r.Block.Height)
			}
		}
	}
	// the pool pays exactly what the credits lost (whole units), and receives exactly what arrived
	var arrived sdk.Coins
	for _, c := range recvNow {
		arrived = arrived.Add(c...)
	}
	poolDelta, negPool := post.pool.SafeSub(pre.pool.Add(arrived...)...)
	_ = negPool
	paidOut := sdk.Coins{}
	for _, c := range poolDelta {
		if c.IsNegative() {
			paidOut = paidOut.Add(sdk.NewCoin(c.Denom, c.Amount.Neg()))
		} else if c.IsPositive() {
			return violf(P, "pool-grew", "consumer rewards pool grew by %s beyond the %s that arrived", c, arrived)
		}
	}
	dropInt, _ := creditDrop.TruncateDecimal()
	if !paidOut.Equal(dropInt) {
		// credits are decimals; the pool moves whole units: the drop of all credits equals what left the pool
		if !sdk.NewDecCoinsFromCoins(paidOut...).Equal(creditDrop) {
			return violf(P, "payout-mismatch", "block %d: credits dropped by %s but %s left the consumer rewards pool", r.Block.Height, creditDrop, paidOut)
		}
	}
	// credits never exceed the pool
	for _, c := range post.pool {
		sum := math.LegacyZeroDec()
		for _, id := range w.ConsumerIDs() {
			sum = sum.Add(post.credits[id].AmountOf(c.Denom))
		}
		if sum.GT(math.LegacyNewDecFromInt(c.Amount)) {
			return violf(P, "credits-exceed-pool", "credits in %s sum to %s but the pool holds %s", c.Denom, sum, c.Amount)
		}
	}
	if paidOut.IsZero() {
		return nil
	}
	m.payout = true
	w.Label("payout")
	// staking txs and validator removals withdraw rewards (all denoms) from the distribution module in the same
	// block; the receiving side can only be balanced when none happened
	for _, tx := range r.Txs {
		if tx.Action != nil {
			switch tx.Action.Kind {
			case world.KDelegate, world.KUndelegate, world.KRedelegate, world.KCreateValidator, world.KUnjail:
				w.Label("payout-accounting-skipped")
				return nil
			}
		}
	}
	for name, o := range pre.outstanding {
		if _, still := post.outstanding[name]; !still && !o.IsZero() {
			w.Label("payout-accounting-skipped")
			return nil
		}
	}
	// a validator removed by x/staking in this block (its unbonding completed with no stake left) has its commission
	// paid out of the distribution module and its outstanding rewards moved to the community pool by the hook
	for name, was := range pre.exists {
		if was && !post.exists[name] {
			w.Label("payout-accounting-skipped")
			return nil
		}
	}
	// what left the pool went to the distribution module; validators + community pool got at most that, at least that minus dust
	distrDelta, _ := post.distr.SafeSub(pre.distr...)
	for _, c := range paidOut {
		if distrDelta.AmountOf(c.Denom).LT(c.Amount) {
			return violf(P, "distribution-balance", "%s left the rewards pool but the distribution module received %s", c, distrDelta.AmountOf(c.Denom))
		}
	}
	for _, c := range paidOut {
		gained := post.community.AmountOf(c.Denom).Sub(pre.community.AmountOf(c.Denom))
		for _, name := range w.ValOrder {
			gained = gained.Add(post.outstanding[name].AmountOf(c.Denom).Sub(pre.outstanding[name].AmountOf(c.Denom)))
		}
		amt := math.LegacyNewDecFromInt(c.Amount)
		dust := math.LegacyNewDec(int64(len(w.ValOrder) + 2))
		if gained.GT(amt) || gained.LT(amt.Sub(dust)) {
			return violf(P, "payout-accounting", "%s was paid out of the rewards pool but validators and community pool were credited %s", c, gained)
		}
	}
	// eligibility and proportionality, per consumer that had an allocation (only when a single consumer paid in a denom)
	for id, tot := range allocated {
		others := false
		for oid, ot := range allocated {
			if oid != id {
				for _, c := range tot {
					if !ot.AmountOf(c.Denom).IsZero() {
						others = true
					}
				}
			}
		}
		if others {
			w.Label("payout-shared-denom")
			continue
		}
		epochs := k.GetNumberOfEpochsToStartReceivingRewards(ctx)
		bpe := k.GetBlocksPerEpoch(ctx)
		eligible := map[string]int64{}
		names := w.NameByConsAddr()
		for _, cv := range pre.sets[id] {
			joined := cv.JoinHeight
			if s, ok := m.since[id][cv.ProvAddr]; ok {
				joined = s
			}
			if r.Block.Height-joined >= epochs*bpe {
				eligible[names[cv.ProvAddr]] = cv.Power
			} else {
				m.payoutIneligible = true
				w.Label("payout-with-ineligible")
			}
		}
		for _, c := range tot {
			type gain struct {
				name  string
				g     math.LegacyDec
				power int64
			}
			var gains []gain
			for _, name := range w.ValOrder {
				g := post.outstanding[name].AmountOf(c.Denom).Sub(pre.outstanding[name].AmountOf(c.Denom))
				if g.IsNegative() {
					continue // withdrawn by somebody
				}
				if p, ok := eligible[name]; ok {
					gains = append(gains, gain{name, g, p})
				} else if g.IsPositive() {
					return violf(P, "ineligible-paid", "validator %s received %s%s from consumer %s although it is not an eligible member of its validator set (eligible: %v)", name, g, c.Denom, id, sortedKeys(eligible))
				}
			}
			// each payment is split under the validator's commission rate for this consumer (its own rate if none is set)
			for _, gn := range gains {
				rate, known := pre.rates[id][gn.name]
				if !known || !gn.g.IsPositive() {
					continue
				}
				dc := post.commission[gn.name].AmountOf(c.Denom).Sub(pre.commission[gn.name].AmountOf(c.Denom))
				wantC := gn.g.Mul(rate)
				tol := math.LegacyNewDecWithPrec(1, 9).Add(gn.g.Mul(math.LegacyNewDecWithPrec(1, 12)))
				if dc.Sub(wantC).Abs().GT(tol) {
					return violf(P, "commission", "consumer %s payout in %s: validator %s received %s, its commission grew by %s, want %s = rate %s in force for that consumer (per-consumer rate set: %v)", id, c.Denom, gn.name, gn.g, dc, wantC, rate, pre.custom[id][gn.name])
				}
				if pre.custom[id][gn.name] {
					w.Label("payout-custom-commission")
				}
			}
			for i := range gains {
				for j := range gains {
					// g_i / p_i == g_j / p_j within truncation dust
					l := gains[i].g.MulInt64(gains[j].power)
					rr := gains[j].g.MulInt64(gains[i].power)
					tol := math.LegacyNewDec(gains[i].power + gains[j].power)
					if l.Sub(rr).Abs().GT(tol) {
						return violf(P, "not-proportional", "consumer %s payout in %s: %s got %s at power %d, %s got %s at power %d", id, c.Denom, gains[i].name, gains[i].g, gains[i].power, gains[j].name, gains[j].g, gains[j].power)
					}
				}
			}
		}
	}
	return nil
}

// track updates the oracle's membership record from the sets stored after a provider block.
func (m *C16) track(post *provBal, height int64) {
	for id, set := range post.sets {
		if m.since[id] == nil {
			m.since[id] = map[string]int64{}
		}
		cur := map[string]bool{}
		for _, cv := range set {
			cur[cv.ProvAddr] = true
			if _, ok := m.since[id][cv.ProvAddr]; !ok {
				m.since[id][cv.ProvAddr] = height
			}
		}
		for a := range m.since[id] {
			if !cur[a] {
				delete(m.since[id], a)
			}
		}
	}
}

func sortedKeys(m map[string]int64) []string {
	var out []string
	for k := range m {
		out = append(out, k)
	}
	sort.Strings(out)
	return out
}

func (m *C16) consumerBlock(w *world.World, r *world.StepResult) *Violation {
	const P = "C16"
	p := w.F().Paths[r.Chain]
	pre := m.cPre[r.Chain]
	if p == nil || pre == nil || r.Block.EngineHalt != "" {
		return nil
	}
	delete(m.cPre, r.Chain)
	m.n++
	C := p.C
	post := takeConsBal(C)
	ck := C.CApp.ConsumerKeeper
	if !post.collector.IsZero() {
		return violf(P, "collector-not-emptied", "consumer %s: fee collector holds %s after block %d", r.Chain, post.collector, r.Block.Height)
	}
	// transfers sent in this block (from the to-provider account) and refunds of timed-out ones
	sent := sdk.Coins{}
	for i := m.seenC2P[r.Chain]; i < len(p.C2P); i++ {
		pr := p.C2P[i]
		if pr.Packet.SourcePort != transfertypes.PortID {
			continue
		}
		var data transfertypes.FungibleTokenPacketData
		if err := transfertypes.ModuleCdc.UnmarshalJSON(pr.Packet.Data, &data); err == nil && data.Sender == moduleAddr(consumertypes.ConsumerToSendToProviderName).String() {
			if amt, ok := math.NewIntFromString(data.Amount); ok {
				sent = sent.Add(sdk.NewCoin(data.Denom, amt))
				w.Label("reward-transfer-sent")
			}
		}
	}
	m.seenC2P[r.Chain] = len(p.C2P)
	refunded := sdk.Coins{}
	for _, e := range world.EventsOf(allEv(r), "timeout") {
		if world.Attr(e, "refund_receiver") == moduleAddr(consumertypes.ConsumerToSendToProviderName).String() {
			if amt, ok := math.NewIntFromString(world.Attr(e, "refund_amount")); ok {
				refunded = refunded.Add(sdk.NewCoin(world.Attr(e, "refund_denom"), amt))
				w.Label("transfer-timeout-refund")
			}
		}
	}
	// fees of this block F = what reached both accounts (plus what was sent on, minus refunds)
	dRed := post.redistribute.Sub(pre.redistribute...)
	dProv, _ := post.toProvider.Add(sent...).SafeSub(pre.toProvider.Add(refunded...)...)
	frac := math.LegacyMustNewDecFromStr(ck.GetConsumerRedistributionFrac(C.Ctx()))
	denoms := map[string]bool{}
	for _, c := range dRed {
		denoms[c.Denom] = true
	}
	for _, c := range dProv {
		denoms[c.Denom] = true
	}
	for d := range denoms {
		red, prov := dRed.AmountOf(d), dProv.AmountOf(d)
		if red.IsNegative() || prov.IsNegative() {
			return violf(P, "fee-split-negative", "consumer %s block %d: redistribute account changed by %s%s, to-provider account by %s%s", r.Chain, r.Block.Height, red, d, prov, d)
		}
		F := red.Add(prov)
		want := frac.MulInt(F).TruncateInt()
		if !red.Equal(want) {
			return violf(P, "fee-split", "consumer %s block %d: fees %s%s, consumer share %s, want floor(%s * fees) = %s", r.Chain, r.Block.Height, F, d, red, frac, want)
		}
		if F.IsPositive() {
			w.Label("fees-split")
		}
	}
	// transmissions: only every BlocksPerDistributionTransmission blocks, only allowed denoms, the whole balance
	bpdt := ck.GetBlocksPerDistributionTransmission(C.Ctx())
	due := r.Block.Height-pre.lastTx >= bpdt
	if !sent.IsZero() {
		if !due {
			return violf(P, "early-transmission", "consumer %s sent rewards in block %d, last transmission %d, period %d", r.Chain, r.Block.Height, pre.lastTx, bpdt)
		}
		allowed := map[string]bool{}
		for _, d := range ck.AllowedRewardDenoms(C.Ctx()) {
			allowed[d] = true
		}
		for _, c := range sent {
			if !allowed[c.Denom] {
				return violf(P, "denom-not-allowed", "consumer %s sent %s to the provider, which is not an allowed reward denom", r.Chain, c)
			}
			if !post.toProvider.AmountOf(c.Denom).IsZero() {
				return violf(P, "partial-transmission", "consumer %s sent %s but kept %s%s", r.Chain, c, post.toProvider.AmountOf(c.Denom), c.Denom)
			}
		}
	}
	if due && post.lastTx != r.Block.Height {
		return violf(P, "transmission-clock", "consumer %s block %d: a transmission was due (last %d, period %d) but the last transmission height is %d", r.Chain, r.Block.Height, pre.lastTx, bpdt, post.lastTx)
	}
	if !due && post.lastTx != pre.lastTx {
		return violf(P, "transmission-clock", "consumer %s block %d: last transmission height moved from %d to %d before the period %d elapsed", r.Chain, r.Block.Height, pre.lastTx, post.lastTx, bpdt)
	}
	return nil
}

func (m *C16) NonTrivial(*world.World) bool { return m.payout }
func (m *C16) Checks() int                  { return m.n }

var _ = fmt.Sprint
