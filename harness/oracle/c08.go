package oracle

import (
	"os"
	"bytes"
	"fmt"
	"sort"
	"time"

	"cosmossdk.io/math"

	sdk "github.com/cosmos/cosmos-sdk/types"
	stakingtypes "github.com/cosmos/cosmos-sdk/x/staking/types"

	channeltypes "github.com/cosmos/ibc-go/v10/modules/core/04-channel/types"

	providertypes "github.com/cosmos/interchain-security/v7/x/ccv/provider/types"
	ccvtypes "github.com/cosmos/interchain-security/v7/x/ccv/types"

	"verif/harness/world"
)

// ackKind classifies the acknowledgement the provider wrote for a consumer packet.
func ackKind(ack []byte) string {
	var a channeltypes.Acknowledgement
	if err := channeltypes.SubModuleCdc.UnmarshalJSON(ack, &a); err != nil {
		return "undecodable"
	}
	if a.GetError() != "" {
		return "error"
	}
	res := a.GetResult()
	switch {
	case bytes.Equal(res, ccvtypes.V1Result):
		return "v1"
	case bytes.Equal(res, ccvtypes.SlashPacketHandledResult):
		return "handled"
	case bytes.Equal(res, ccvtypes.SlashPacketBouncedResult):
		return "bounced"
	}
	return "other"
}

// slashPre is the provider state at the beginning of a block that slash handling depends on.
type slashPre struct {
	stake    map[string]stakeRec
	phase    map[string]providertypes.ConsumerPhase
	sets     map[string]map[string]bool // consumer -> provider addr hex in the stored set
	meter    math.Int
	absent   bool
	time     time.Time
	candidate time.Time
	totalPower math.Int
	curID      uint64
	curMapped  bool
	initHeight map[string]bool
}

func takeSlashPre(w *world.World, a *world.Action) *slashPre {
	ctx := w.P.Ctx()
	k := w.P.PApp.ProviderKeeper
	s := &slashPre{stake: takeStake(w), phase: map[string]providertypes.ConsumerPhase{}, sets: map[string]map[string]bool{}, absent: len(a.Absent) > 0, time: w.P.Time}
	for _, id := range w.ConsumerIDs() {
		s.phase[id] = k.GetConsumerPhase(ctx, id)
		set := map[string]bool{}
		for _, c := range w.ConsumerRecordedSet(id) {
			set[c.ProvAddr] = true
		}
		s.sets[id] = set
	}
	s.curID = k.GetValidatorSetUpdateId(ctx)
	_, s.curMapped = k.GetValsetUpdateBlockHeight(ctx, s.curID)
	s.initHeight = map[string]bool{}
	for _, id := range w.ConsumerIDs() {
		_, s.initHeight[id] = k.GetInitChainHeight(ctx, id)
	}
	s.meter = k.GetSlashMeter(ctx)
	s.candidate = k.GetSlashMeterReplenishTimeCandidate(ctx)
	s.totalPower, _ = w.P.PApp.StakingKeeper.GetLastTotalPower(ctx)
	return s
}

// slashEvent is one slash packet processed by the provider, with the verdict the reference rules give it.
type slashEvent struct {
	consumer string
	data     ccvtypes.SlashPacketData
	ack      string
	val      string // resolved validator name ("" unknown)
	jailed   bool   // the provider was expected to jail val
	owedAck  bool   // a slash ack for the consumer address is owed with the next VSC packet
	reason   string
	power    int64 // power subtracted from the meter
	throttled bool // the packet reached the throttle (launched consumer, validator in its set)
}

// C08: downtime reports jail exactly the right validator and are acknowledged.
type C08 struct {
	km  *KeyModel
	n   int
	pre *slashPre

	owed     map[string][]owedAck // consumer -> owed slash acks
	vscSeen  map[string]int       // consumer -> number of P2C VSC packets already inspected
	jailSeen, declineSeen bool
	// consumer side
	flagged map[string]map[string]bool // consumer -> consumer address (hex) with an outstanding downtime report
}

type owedAck struct {
	addr   string // consumer consensus address, bech32 as the provider stores it
	height int64
}

func NewC08(w *world.World) *C08 {
	return &C08{km: newKeyModel("C08"), owed: map[string][]owedAck{}, vscSeen: map[string]int{}, flagged: map[string]map[string]bool{}}
}

func (m *C08) Before(w *world.World, a *world.Action) {
	m.km.Before(w, a)
	if a.Kind == world.KBlock && (a.Chain == "" || a.Chain == "provider") && w.P.Height > 0 {
		m.pre = takeSlashPre(w, a)
	}
}

func resolveName(w *world.World, km *KeyModel, consumer string, addr []byte) string {
	hexAddr := fmt.Sprintf("%X", addr)
	if v, _, _ := km.knownOn(consumer, hexAddr); v != "" {
		return v
	}
	for _, name := range w.ValOrder {
		vi := w.Vals[name]
		if vi.ProvKey != "" && keyAddr(w, vi.ProvKey) == hexAddr {
			return name
		}
	}
	return ""
}

// analyseSlashPackets replays the slash packets the provider received in this block against the reference
// decision (DESIGN appendix B4), using the acknowledgement to learn whether the throttle admitted the packet.
func analyseSlashPackets(w *world.World, km *KeyModel, pre *slashPre, r *world.StepResult) ([]slashEvent, *Violation, bool) {
	const P = "C08"
	ctx := w.P.Ctx()
	k := w.P.PApp.ProviderKeeper
	var out []slashEvent
	jailedNow := map[string]bool{}
	strict := !pre.absent
	for _, tx := range r.Txs {
		if tx.Action == nil {
			continue
		}
		switch tx.Action.Kind {
		case world.KUnjail, world.KRemoveConsumer, world.KProviderDS, world.KDoubleVote, world.KMisbehaviour, world.KUndelegate, world.KRedelegate:
			// these can jail, unjail or stop something in the middle of the block
			strict = false
		case world.KAssignKey, world.KOptIn, world.KMulti:
			// a key assigned in the middle of the block changes which validator a reported key resolves to
			acts := []world.Action{*tx.Action}
			if tx.Action.Kind == world.KMulti {
				acts = tx.Action.Sub
			}
			for _, sa := range acts {
				if tx.OK() && sa.Key != "" && (sa.Kind == world.KAssignKey || sa.Kind == world.KOptIn) {
					strict = false
				}
			}
		}
	}
	for _, g := range r.Gov {
		if g.Action.Kind == world.KRemoveConsumer {
			strict = false
		}
	}
	for _, rec := range w.LastRecv {
		if rec.Packet.DestinationPort != ccvtypes.ProviderPortID {
			continue
		}
		ev := slashEvent{consumer: rec.PathID, ack: ackKind(rec.Ack)}
		sp, ok := decodeSlash(rec.Packet.Data)
		if !ok {
			// not a slash packet (or garbage): must not be "handled"
			if ev.ack == "handled" || ev.ack == "bounced" {
				return nil, violf(P, "non-slash-handled", "a packet that is no slash packet was acknowledged as %s", ev.ack), strict
			}
			continue
		}
		ev.data = sp
		valid := sp.Validate() == nil
		// ids known when the txs of this block ran: all earlier ids, and the current one once it was mapped
		idKnown := sp.ValsetUpdateId < pre.curID || (sp.ValsetUpdateId == pre.curID && pre.curMapped)
		if sp.ValsetUpdateId == 0 {
			idKnown = pre.initHeight[rec.PathID]
		}
		if !valid || !idKnown {
			ev.reason = "invalid"
			if ev.ack != "error" && strict && !valid {
				return nil, violf(P, "invalid-packet-acked", "invalid slash packet %+v from consumer %s was acknowledged with %s", sp, rec.PathID, ev.ack), strict
			}
			out = append(out, ev)
			continue
		}
		if sp.Infraction == stakingtypes.Infraction_INFRACTION_DOUBLE_SIGN {
			ev.reason = "double-sign"
			if ev.ack != "v1" {
				return nil, violf(P, "double-sign-ack", "double-sign slash packet from consumer %s was acknowledged with %s", rec.PathID, ev.ack), strict
			}
			out = append(out, ev)
			continue
		}
		if ev.ack == "error" || ev.ack == "v1" || ev.ack == "other" || ev.ack == "undecodable" {
			return nil, violf(P, "downtime-ack", "valid downtime slash packet (id %d) from consumer %s was acknowledged with %s", sp.ValsetUpdateId, rec.PathID, ev.ack), strict
		}
		ev.val = resolveName(w, km, rec.PathID, sp.Validator.Address)
		phase := pre.phase[rec.PathID]
		if phase == world.PhInit && k.GetConsumerPhase(ctx, rec.PathID) != world.PhInit {
			phase = world.PhLaunched
		}
		st, known := pre.stake[ev.val]
		inSet := known && pre.sets[rec.PathID][fmt.Sprintf("%X", []byte(st.ConsAddr))]
		switch {
		case phase != world.PhLaunched:
			ev.reason = "not-launched"
			ev.owedAck = true
			if ev.ack != "handled" {
				return nil, violf(P, "not-launched-ack", "slash packet for non-launched consumer %s acknowledged with %s", rec.PathID, ev.ack), strict
			}
		case !inSet:
			ev.reason = "not-in-set"
			ev.owedAck = true
			if ev.ack != "handled" && strict {
				return nil, violf(P, "not-in-set-ack", "slash packet from consumer %s for %q, who is not in its validator set, acknowledged with %s", rec.PathID, ev.val, ev.ack), strict
			}
		case ev.ack == "bounced":
			ev.reason = "bounced"
			ev.throttled = true
		default:
			// handled by the throttle: HandleSlashPacket ran
			alreadyJailed := st.Jailed || jailedNow[ev.val]
			ev.throttled = true
			if st.Exists && !alreadyJailed {
				ev.power = st.LastPower
			}
			switch {
			case !st.Exists || st.Status == stakingtypes.Unbonded:
				ev.reason = "unbonded"
			case st.Tombstoned:
				ev.reason = "tombstoned"
			case alreadyJailed:
				ev.reason = "already-jailed"
				ev.owedAck = true
			default:
				ev.reason = "jail"
				ev.owedAck = true
				ev.jailed = true
				jailedNow[ev.val] = true
			}
		}
		// an acknowledgement is only ever owed for a report the provider answered with "handled" (in relaxed blocks
		// the reference decision may differ from the provider's, e.g. a bounced report is never acknowledged)
		if ev.ack != "handled" {
			ev.owedAck = false
		}
		out = append(out, ev)
	}
	return out, nil, strict
}

func (m *C08) After(w *world.World, a *world.Action, r *world.StepResult) *Violation {
	const P = "C08"
	if r.Block == nil || r.Block.Failed() {
		return m.km.After(w, a, r)
	}
	f := w.F()
	if r.Chain != "provider" {
		kv := m.km.After(w, a, r)
		if v := m.consumerSide(w, r); v != nil {
			return v
		}
		return kv
	}
	if m.pre == nil {
		return m.km.After(w, a, r)
	}
	pre := m.pre
	m.pre = nil
	ctx := w.P.Ctx()
	k := w.P.PApp.ProviderKeeper
	events, v, strict := analyseSlashPackets(w, m.km, pre, r)
	kmViolation := m.km.After(w, a, r)
	if v != nil {
		return v
	}
	if kmViolation != nil {
		return kmViolation
	}
	post := takeStake(w)
	T := r.Block.Time

	expectJailed := map[string]slashEvent{}
	if len(events) > 0 && os.Getenv("VERIF_DEBUG") != "" {
		fmt.Fprintf(os.Stderr, "C08 block %d (strict %v): %s\n", r.Block.Height, strict, fmtEvents(events))
	}
	for _, ev := range events {
		m.n++
		w.Label("report:" + ev.reason)
		if ev.jailed {
			expectJailed[ev.val] = ev
			m.jailSeen = true
		} else if ev.reason != "invalid" && ev.reason != "double-sign" {
			m.declineSeen = true
		}
		if ev.owedAck {
			cca := providertypes.NewConsumerConsAddress(sdk.ConsAddress(ev.data.Validator.Address))
			addr := cca.String()
			m.owed[ev.consumer] = append(m.owed[ev.consumer], owedAck{addr: addr, height: r.Block.Height})
		}
	}
	if len(events) > 0 && strict {
		// nobody but the reported validators changed; reported ones changed exactly as the consumer's downtime parameters say
		redDst := map[string]bool{}
		for v := range expectJailed {
			for d := range pre.stake[v].RedDst {
				redDst[d] = true
			}
		}
		staked := map[string]bool{} // validators whose tokens a staking tx of this block may have changed
		for _, tx := range r.Txs {
			if tx.Action != nil && tx.OK() {
				switch tx.Action.Kind {
				case world.KDelegate, world.KUndelegate, world.KRedelegate, world.KCreateValidator:
					staked[tx.Action.Val], staked[tx.Action.Val2], staked[tx.Action.Sender] = true, true, true
				}
			}
		}
		for name, before := range pre.stake {
			after := post[name]
			ev, culprit := expectJailed[name]
			if !culprit && staked[name] {
				if before.Jailed != after.Jailed || before.Tombstoned != after.Tombstoned || before.JailedUntil != after.JailedUntil {
					return violf(P, "bystander-changed", "block %d handled slash packets %s but validator %s changed: %+v -> %+v", r.Block.Height, fmtEvents(events), name, before.ValObs, after.ValObs)
				}
				continue
			}
			tokensComparable := !(culprit && staked[name]) // a delegation of this block changed the tokens too
			if !tokensComparable {
				before.Tokens = after.Tokens
			}
			if !culprit {
				if redDst[before.Operator] && !after.Tokens.IsNil() && !before.Tokens.IsNil() && after.Tokens.LTE(before.Tokens) &&
					before.Jailed == after.Jailed && before.Tombstoned == after.Tombstoned && before.JailedUntil == after.JailedUntil {
					continue
				}
				if !sameRec(before.ValObs, after.ValObs) {
					return violf(P, "bystander-changed", "block %d handled slash packets %s but validator %s changed: %+v -> %+v", r.Block.Height, fmtEvents(events), name, before.ValObs, after.ValObs)
				}
				continue
			}
			params, err := k.GetInfractionParameters(ctx, ev.consumer)
			if err != nil {
				continue
			}
			if !after.Jailed {
				return violf(P, "not-jailed", "downtime report from consumer %s for %s was handled but the validator is not jailed", ev.consumer, name)
			}
			want := T.Add(params.Downtime.JailDuration)
			if after.JailedUntil != want.UnixNano() {
				return violf(P, "jail-duration", "validator %s jailed until %s, want block time + consumer %s downtime jail duration %s = %s", name, time.Unix(0, after.JailedUntil).UTC(), ev.consumer, params.Downtime.JailDuration, want.UTC())
			}
			if after.Tombstoned != before.Tombstoned {
				return violf(P, "downtime-tombstone", "downtime report tombstoned %s", name)
			}
			burned := before.Tokens.Sub(after.Tokens)
			maxBurn := math.LegacyNewDecFromInt(sdk.TokensFromConsensusPower(ev.data.Validator.Power, sdk.DefaultPowerReduction)).Mul(params.Downtime.SlashFraction).TruncateInt()
			if burned.IsNegative() || burned.GT(maxBurn) {
				return violf(P, "downtime-slash", "validator %s lost %s tokens for a downtime report (power %d, consumer fraction %s => at most %s)", name, burned, ev.data.Validator.Power, params.Downtime.SlashFraction, maxBurn)
			}
			if tokensComparable && params.Downtime.SlashFraction.IsPositive() && maxBurn.IsPositive() && len(before.UBD) == 0 && len(before.Red) == 0 {
				wantBurn := math.MinInt(maxBurn, before.Tokens)
				if !burned.Equal(wantBurn) {
					return violf(P, "downtime-slash", "validator %s lost %s tokens, want %s (fraction %s of reported power %d)", name, burned, wantBurn, params.Downtime.SlashFraction, ev.data.Validator.Power)
				}
			}
		}
	} else if len(events) > 0 {
		w.Label("report-check-relaxed")
	}

	// slash acks travel with the next VSC packet created for that consumer
	for _, cid := range f.Order {
		p := f.Paths[cid]
		n := 0
		for _, pr := range p.P2C {
			if pr.Packet.SourcePort != ccvtypes.ProviderPortID {
				continue
			}
			n++
			if n <= m.vscSeen[cid] {
				continue
			}
			m.vscSeen[cid] = n
			d, ok := decodeVSC(pr.Packet.Data)
			if !ok {
				continue
			}
			var due []string
			var rest []owedAck
			for _, o := range m.owed[cid] {
				if o.height <= pr.SentHeight {
					due = append(due, o.addr)
				} else {
					rest = append(rest, o)
				}
			}
			got := append([]string{}, d.SlashAcks...)
			sort.Strings(got)
			sort.Strings(due)
			if len(k.GetPendingVSCPackets(ctx, cid)) > 0 {
				w.Label("slash-ack-check-skipped")
				m.owed[cid] = rest
				continue
			}
			if fmt.Sprint(got) != fmt.Sprint(due) {
				return violf(P, "slash-acks", "VSC packet id %d to consumer %s carries slash acks %v, owed are %v", d.ValsetUpdateId, cid, got, due)
			}
			if len(due) > 0 {
				w.Label("slash-ack-sent")
			}
			m.owed[cid] = rest
		}
		// acknowledgements that are owed and not yet carried by a packet are on record on the provider (in its list
		// for that consumer or inside a validator-set packet still queued for it) until the consumer is deleted
		if k.GetConsumerPhase(ctx, cid) == world.PhDeleted {
			m.owed[cid] = nil
			continue
		}
		onRecord := map[string]bool{}
		for _, a := range k.GetSlashAcks(ctx, cid) {
			onRecord[a] = true
		}
		for _, pk := range k.GetPendingVSCPackets(ctx, cid) {
			for _, a := range pk.SlashAcks {
				onRecord[a] = true
			}
		}
		for _, o := range m.owed[cid] {
			if !onRecord[o.addr] {
				return violf(P, "slash-ack-not-recorded", "the report of %s by consumer %s (handled at height %d) is owed an acknowledgement, but the provider has none on record for it (list %v)", o.addr, cid, o.height, k.GetSlashAcks(ctx, cid))
			}
			w.Label("slash-ack-on-record")
		}
	}
	return nil
}

func fmtEvents(evs []slashEvent) string {
	s := ""
	for _, e := range evs {
		s += fmt.Sprintf("[%s:%s:%s:%s]", e.consumer, e.val, e.reason, e.ack)
	}
	return s
}

// consumerSide checks the outstanding-downtime bookkeeping of an honest consumer.
func (m *C08) consumerSide(w *world.World, r *world.StepResult) *Violation {
	const P = "C08"
	p := w.F().Paths[r.Chain]
	if p == nil || p.Malicious || r.Block.EngineHalt != "" {
		return nil
	}
	C := p.C
	ck := C.CApp.ConsumerKeeper
	if m.flagged[r.Chain] == nil {
		m.flagged[r.Chain] = map[string]bool{}
	}
	fl := m.flagged[r.Chain]
	// VSC packets delivered in this block clear the flags they acknowledge
	for _, rec := range w.LastRecv {
		if rec.Packet.SourcePort != ccvtypes.ProviderPortID {
			continue
		}
		if d, ok := decodeVSC(rec.Packet.Data); ok {
			for _, a := range d.SlashAcks {
				if ca, err := ccvtypes.GetConsAddrFromBech32(a); err == nil {
					delete(fl, fmt.Sprintf("%X", []byte(ca)))
					w.Label("downtime-flag-cleared")
				}
			}
		}
	}
	ackedNow := map[string]bool{}
	for _, rec := range w.LastRecv {
		if rec.Packet.SourcePort == ccvtypes.ProviderPortID {
			if d, ok := decodeVSC(rec.Packet.Data); ok {
				for _, a := range d.SlashAcks {
					if ca, err := ccvtypes.GetConsAddrFromBech32(a); err == nil {
						ackedNow[fmt.Sprintf("%X", []byte(ca))] = true
					}
				}
			}
		}
	}
	// new slash requests of this block: never for a flagged validator
	for _, e := range world.EventsOf(allEv(r), "consumer_slash_request") {
		if world.Attr(e, ccvtypes.AttributeInfractionType) != stakingtypes.Infraction_INFRACTION_DOWNTIME.String() {
			continue
		}
		ca, err := sdk.ConsAddressFromBech32(world.Attr(e, ccvtypes.AttributeValidatorAddress))
		if err != nil {
			continue
		}
		h := fmt.Sprintf("%X", []byte(ca))
		if fl[h] {
			return violf(P, "duplicate-downtime-report", "consumer %s queued a second downtime report for %s while one is outstanding", r.Chain, h[:8])
		}
		fl[h] = true
	}
	// validators that (re)joined the consumer set are unflagged by the consumer module
	cur := map[string]bool{}
	for _, v := range ck.GetAllCCValidator(C.Ctx()) {
		cur[fmt.Sprintf("%X", v.Address)] = true
	}
	got := map[string]bool{}
	for _, od := range ck.GetAllOutstandingDowntimes(C.Ctx()) {
		ca, err := sdk.ConsAddressFromBech32(od.ValidatorConsensusAddress)
		if err != nil {
			continue
		}
		h := fmt.Sprintf("%X", []byte(ca))
		if got[h] {
			return violf(P, "outstanding-duplicate", "consumer %s lists %s twice as outstanding downtime", r.Chain, h[:8])
		}
		got[h] = true
	}
	for h := range ackedNow {
		if got[h] && !fl[h] {
			return violf(P, "flag-not-cleared", "consumer %s still flags %s after receiving the provider's acknowledgement for it", r.Chain, h[:8])
		}
	}
	for h := range fl {
		if !got[h] {
			// the module may also clear a flag when the validator is re-added to the set
			delete(fl, h)
		}
	}
	for h := range got {
		if !fl[h] {
			return violf(P, "outstanding-unexplained", "consumer %s has an outstanding downtime flag for %s without a slash request", r.Chain, h[:8])
		}
	}
	return nil
}

func (m *C08) NonTrivial(*world.World) bool { return m.jailSeen && m.declineSeen }
func (m *C08) Checks() int                  { return m.n }
