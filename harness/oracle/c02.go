package oracle

import (
	"fmt"
	"sort"

	stakingtypes "github.com/cosmos/cosmos-sdk/x/staking/types"

	"verif/harness/world"
)

// eligSnap is the provider-wide state an eligibility decision depends on.
type eligSnap struct {
	obs    map[string]world.ValObs // by validator name
	byAddr map[string]world.ValObs // by provider consensus address (hex upper)
	active map[string]bool         // provider consensus addresses in the provider's recorded consensus set
	order  []string
}

func takeEligSnap(w *world.World) *eligSnap {
	s := &eligSnap{obs: w.ObserveVals(), byAddr: map[string]world.ValObs{}, active: map[string]bool{}, order: w.SortedValNames()}
	for _, o := range s.obs {
		if o.Exists {
			s.byAddr[fmt.Sprintf("%X", []byte(o.ConsAddr))] = o
		}
	}
	for _, c := range w.ProviderRecordedSet() {
		s.active[c.ProvAddr] = true
	}
	return s
}

func inList(list []string, bech string) bool {
	for _, a := range list {
		if a == bech {
			return true
		}
	}
	return false
}

// eligibility restates the conditions of property C02 for one validator and one consumer.
// It returns ("" = eligible) or the first exclusion reason.
func eligibility(s *eligSnap, co *world.ConsObs, o world.ValObs) string {
	addr := fmt.Sprintf("%X", []byte(o.ConsAddr))
	if !o.Exists || o.Status != stakingtypes.Bonded {
		return "not-bonded"
	}
	if o.Jailed {
		return "jailed"
	}
	topN := co.Shaping.Top_N > 0
	if !co.OptedIn[addr] && !(topN && co.HasMinPow && o.LastPower >= co.MinPower) {
		return "not-opted-in"
	}
	bech := o.ConsAddr.String()
	if len(co.Shaping.Allowlist) > 0 && !inList(co.Shaping.Allowlist, bech) {
		return "allowlist"
	}
	if len(co.Shaping.Denylist) > 0 && inList(co.Shaping.Denylist, bech) {
		return "denylist"
	}
	if co.Shaping.MinStake > 0 && (!o.Tokens.IsUint64() || o.Tokens.Uint64() < co.Shaping.MinStake) {
		return "minstake"
	}
	if !co.Shaping.AllowInactiveVals && !s.active[addr] {
		return "inactive"
	}
	return ""
}

// mustInclude: eligible and (holds an opt-in record, or is an active validator at or above the Top-N threshold).
func mustInclude(s *eligSnap, co *world.ConsObs, o world.ValObs) bool {
	if eligibility(s, co, o) != "" {
		return false
	}
	addr := fmt.Sprintf("%X", []byte(o.ConsAddr))
	if co.OptedIn[addr] {
		return true
	}
	return co.Shaping.Top_N > 0 && s.active[addr] && co.HasMinPow && o.LastPower >= co.MinPower
}

// C02: only eligible bonded provider validators secure a consumer, at provider power.
type C02 struct {
	n         int
	pre       *eligSnap
	preCons   map[string]*world.ConsObs
	strict    bool
	reasons   map[string]bool
	// WithCaps additionally checks the C04 composition (validator-set cap, priority list, power cap).
	Prop     string
	CheckCap bool
	capSeen, powerCapSeen bool
}

func NewC02(w *world.World) *C02 { return &C02{reasons: map[string]bool{}, Prop: "C02"} }

// NewC04Composition checks the cap/priority/power-cap clauses of C04 on the sets stored by the provider.
func NewC04Composition(w *world.World) *C02 {
	return &C02{reasons: map[string]bool{}, Prop: "C04", CheckCap: true}
}

func (m *C02) Before(w *world.World, a *world.Action) {
	if a.Kind != world.KBlock || (a.Chain != "" && a.Chain != "provider") {
		return
	}
	m.pre = nil
	m.preCons = map[string]*world.ConsObs{}
	for _, id := range w.ConsumersInPhase(world.PhInit) {
		co := w.ObserveConsumer(id)
		m.preCons[id] = &co
	}
	if len(m.preCons) > 0 {
		m.pre = takeEligSnap(w)
	}
}

func (m *C02) After(w *world.World, a *world.Action, r *world.StepResult) *Violation {
	if r.Block == nil || r.Chain != "provider" || r.Block.Failed() {
		return nil
	}
	ctx := w.P.Ctx()
	bpe := w.P.PApp.ProviderKeeper.GetBlocksPerEpoch(ctx)
	epoch := r.Block.Height%bpe == 0
	var post *eligSnap
	for _, id := range w.ConsumersInPhase(world.PhLaunched) {
		co := w.ObserveConsumer(id)
		_, launchedNow := m.preCons[id]
		switch {
		case epoch:
			if post == nil {
				post = takeEligSnap(w)
			}
			if v := m.checkSet(w, post, &co, &co, r.Block.Height, "epoch"); v != nil {
				return v
			}
		case launchedNow:
			// the initial set was computed in BeginBlock from the state at the end of the previous block
			// (opt-ins, lists, parameters as they were then; the stored set as it is now)
			pre := m.preCons[id]
			if touched(r, id) {
				// a tx of this block changed the consumer after BeginBlock: the pre-state no longer explains
				// the stored record unambiguously, skip (counted)
				w.Label("launch-check-skipped")
				continue
			}
			pre.Set = co.Set
			pre.MinPower, pre.HasMinPow = co.MinPower, co.HasMinPow
			if post == nil {
				post = takeEligSnap(w)
			}
			// a validator jailed by x/slashing in this very BeginBlock is jailed "at that moment"
			snap := *m.pre
			snap.obs = map[string]world.ValObs{}
			snap.byAddr = map[string]world.ValObs{}
			// (x/slashing and x/evidence run before the provider's begin-blocker and take a jailed validator off the
			// power index at once); a validator that unbonded its own stake in a transaction of this block was
			// jailed after the launch and does not count
			selfUnbonded := map[string]bool{}
			for _, tx := range r.Txs {
				if tx.Action != nil && tx.OK() && (tx.Action.Kind == world.KUndelegate || tx.Action.Kind == world.KRedelegate) {
					selfUnbonded[tx.Action.Val] = true
				}
			}
			for name, o := range m.pre.obs {
				if po := post.obs[name]; po.Exists && po.Jailed && !o.Jailed {
					if selfUnbonded[name] {
						w.Label("jailed-after-launch-in-launch-block")
					} else {
						o.Jailed = true
						w.Label("jailed-in-launch-block")
					}
				}
				snap.obs[name] = o
				if o.Exists {
					snap.byAddr[fmt.Sprintf("%X", []byte(o.ConsAddr))] = o
				}
			}
			// the launch runs in BeginBlock: the provider's recorded consensus set is one block old and is
			// replaced at the end of this block; a validator counts as active if it is in either of them, and
			// the clauses that need the exact active set are only evaluated when both agree
			stable := len(m.pre.active) == len(post.active)
			snap.active = map[string]bool{}
			for a := range m.pre.active {
				snap.active[a] = true
				if !post.active[a] {
					stable = false
				}
			}
			for a := range post.active {
				snap.active[a] = true
			}
			when := "launch"
			if !stable {
				when = "launch-unstable"
				w.Label("launch-active-set-moved")
			}
			if v := m.checkSet(w, &snap, pre, &co, r.Block.Height, when); v != nil {
				return v
			}
		}
	}
	return nil
}

// touched reports whether a tx or governance action of this block addressed consumer id.
func touched(r *world.StepResult, id string) bool {
	for _, tx := range r.Txs {
		if tx.Action.Consumer == id {
			return true
		}
	}
	for _, g := range r.Gov {
		if g.Action.Consumer == id {
			return true
		}
	}
	return false
}

func (m *C02) checkSet(w *world.World, s *eligSnap, co *world.ConsObs, now *world.ConsObs, height int64, when string) *Violation {
	P := m.Prop
	m.n++
	members := map[string]world.CV{}
	for _, c := range co.Set {
		members[c.ProvAddr] = c
	}
	if len(members) != len(co.Set) {
		return violf(P, "dup-member", "consumer %s stored set has duplicate provider addresses", co.ID)
	}
	topN := co.Shaping.Top_N > 0
	capApplies := co.Shaping.ValidatorSetCap > 0 && !topN

	var bonded, eligible []world.ValObs
	why := ""
	for _, name := range s.order {
		o := s.obs[name]
		if !o.Exists || o.Status != stakingtypes.Bonded {
			continue
		}
		bonded = append(bonded, o)
		reason := eligibility(s, co, o)
		if reason == "" {
			eligible = append(eligible, o)
		} else {
			m.reasons[reason] = true
			w.Label("excl:" + reason)
			why += fmt.Sprintf("%s:%s ", name, reason)
		}
	}
	if !m.CheckCap {
		// membership direction
		for _, c := range co.Set {
			o, ok := s.byAddr[c.ProvAddr]
			if !ok {
				return violf(P, "member-unknown", "%s: consumer %s member %s is not a provider validator (height %d)", when, co.ID, c.ProvAddr[:8], height)
			}
			if reason := eligibility(s, co, o); reason != "" {
				return violf(P, "member-ineligible:"+reason, "%s: consumer %s (topN=%d allowInactive=%v) contains %s which is excluded by %q (power %d, height %d); provider active set=%v", when, co.ID, co.Shaping.Top_N, co.Shaping.AllowInactiveVals, o.Name, reason, o.LastPower, height, activeNames(s))
			}
			if co.Shaping.ValidatorsPowerCap == 0 && c.Power != o.LastPower {
				return violf(P, "member-power", "%s: consumer %s member %s has power %d, provider power %d (height %d)", when, co.ID, o.Name, c.Power, o.LastPower, height)
			}
			wantKey := o.PubKeyHex
			if k, ok := co.Keys[c.ProvAddr]; ok {
				wantKey = k
			}
			if c.PubKey != wantKey {
				return violf(P, "member-key", "%s: consumer %s member %s uses key %s, want %s (height %d)", when, co.ID, o.Name, c.PubKey[:8], wantKey[:8], height)
			}
		}
		// converse, when no validator-set cap applies
		if !capApplies && when != "launch-unstable" {
			for _, o := range bonded {
				if mustInclude(s, co, o) {
					if _, ok := members[fmt.Sprintf("%X", []byte(o.ConsAddr))]; !ok {
						return violf(P, "eligible-missing", "%s: consumer %s (topN=%d) lacks eligible validator %s (power %d, height %d); members=%v active=%v", when, co.ID, co.Shaping.Top_N, o.Name, o.LastPower, height, memberNames(s, co), activeNames(s))
					}
				}
			}
		}
		if len(co.Set) > 0 && len(co.Set) < len(bonded) {
			m.strict = true
		}
		m.tieLabel(w, s, bonded)
		return nil
	}

	// ---- C04 composition ----
	prio := func(o world.ValObs) int {
		if inList(co.Shaping.Prioritylist, o.ConsAddr.String()) {
			return 1
		}
		return 0
	}
	if when == "launch-unstable" {
		return nil
	}
	if capApplies {
		k := int(co.Shaping.ValidatorSetCap)
		want := k
		if len(eligible) < want {
			want = len(eligible)
		}
		if len(co.Set) != want {
			return violf(P, "cap-size", "%s: consumer %s has %d validators %v, want min(cap=%d, eligible=%d) (height %d); exclusions: %s; shaping %+v", when, co.ID, len(co.Set), memberNames(s, co), k, len(eligible), height, why, co.Shaping)
		}
		for _, e := range eligible {
			ea := fmt.Sprintf("%X", []byte(e.ConsAddr))
			if _, in := members[ea]; in {
				continue
			}
			for _, c := range co.Set {
				i, ok := s.byAddr[c.ProvAddr]
				if !ok {
					continue
				}
				if prio(e) > prio(i) || (prio(e) == prio(i) && e.LastPower > i.LastPower) {
					return violf(P, "cap-rank", "%s: consumer %s excludes %s (prio %d, power %d) but includes %s (prio %d, power %d) (height %d)", when, co.ID, e.Name, prio(e), e.LastPower, i.Name, prio(i), i.LastPower, height)
				}
			}
		}
		if len(eligible) > k {
			m.capSeen = true
			w.Label("priority-cut")
		}
	} else if len(co.Set) != 0 || len(eligible) != 0 {
		// without a cap nobody is cut: the set is exactly the eligible validators (Top-N ties aside, see C02)
		for _, c := range co.Set {
			if _, ok := s.byAddr[c.ProvAddr]; !ok {
				return violf(P, "member-unknown", "%s: consumer %s member %s unknown", when, co.ID, c.ProvAddr[:8])
			}
		}
	}
	if p := co.Shaping.ValidatorsPowerCap; p > 0 && len(co.Set) > 0 {
		var in, out []int64
		cvs := append([]world.CV{}, co.Set...)
		sort.Slice(cvs, func(i, j int) bool { return cvs[i].ProvAddr < cvs[j].ProvAddr })
		for _, c := range cvs {
			o, ok := s.byAddr[c.ProvAddr]
			if !ok {
				return violf(P, "member-unknown", "%s: consumer %s member %s unknown", when, co.ID, c.ProvAddr[:8])
			}
			in = append(in, o.LastPower)
			out = append(out, c.Power)
		}
		if msg, class := PowerCapPredicate(in, out, p); msg != "" {
			return violf(P, "powercap:"+class, "%s: consumer %s power cap %d%%: %s; provider powers %v, consumer powers %v (height %d)", when, co.ID, p, msg, in, out, height)
		} else {
			w.Label("cap-" + class)
			if class == "feasible-binding" || class == "infeasible" {
				m.powerCapSeen = true
			}
		}
	}
	return nil
}

func (m *C02) tieLabel(w *world.World, s *eligSnap, bonded []world.ValObs) {
	minActive, maxInactive := int64(1<<62), int64(-1)
	for _, o := range bonded {
		if s.active[fmt.Sprintf("%X", []byte(o.ConsAddr))] {
			if o.LastPower < minActive {
				minActive = o.LastPower
			}
		} else if o.LastPower > maxInactive {
			maxInactive = o.LastPower
		}
	}
	if maxInactive >= 0 && maxInactive == minActive {
		w.Label("tie-at-M")
	}
}

func activeNames(s *eligSnap) []string {
	var out []string
	for _, n := range s.order {
		o := s.obs[n]
		if o.Exists && s.active[fmt.Sprintf("%X", []byte(o.ConsAddr))] {
			out = append(out, fmt.Sprintf("%s(%d)", n, o.LastPower))
		}
	}
	return out
}

func memberNames(s *eligSnap, co *world.ConsObs) []string {
	var out []string
	for _, c := range co.Set {
		if o, ok := s.byAddr[c.ProvAddr]; ok {
			out = append(out, fmt.Sprintf("%s(%d)", o.Name, c.Power))
		} else {
			out = append(out, c.ProvAddr[:8])
		}
	}
	sort.Strings(out)
	return out
}

func (m *C02) NonTrivial(*world.World) bool {
	if m.CheckCap {
		return m.capSeen || m.powerCapSeen
	}
	return m.strict && len(m.reasons) > 0
}
func (m *C02) Checks() int { return m.n }

// PowerCapPredicate is the exact-arithmetic statement of the power-cap clause of C04.
// in are the uncapped powers, out the capped powers (same order). It returns ("", class) if out is an
// allowed result, else a message.
func PowerCapPredicate(in, out []int64, percent uint32) (string, string) {
	if len(in) != len(out) {
		return fmt.Sprintf("%d inputs but %d outputs", len(in), len(out)), "shape"
	}
	n := int64(len(in))
	var S int64
	for _, p := range in {
		S += p
	}
	// cap = floor(S*percent/100) computed without overflow for S <= 2^60
	capv := (S/100)*int64(percent) + (S%100)*int64(percent)/100
	achievable := capv >= 1 && (capv >= (S+n-1)/n)
	if !achievable {
		for _, p := range out {
			if p != out[0] {
				return "cap not achievable, yet powers are not all equal", "infeasible"
			}
		}
		return "", "infeasible"
	}
	var So, maxOut int64
	binding := false
	for i, p := range out {
		So += p
		if p > maxOut {
			maxOut = p
		}
		if p < 1 {
			return fmt.Sprintf("validator %d reduced to %d", i, p), "feasible"
		}
		if in[i] > capv {
			binding = true
		}
	}
	if maxOut > capv {
		return fmt.Sprintf("max power %d exceeds cap %d", maxOut, capv), "feasible"
	}
	if So != S {
		return fmt.Sprintf("total %d differs from uncapped total %d", So, S), "feasible"
	}
	for i := range in {
		for j := range in {
			if in[i] > in[j] && out[i] < out[j] {
				return fmt.Sprintf("order not preserved: in %d>%d but out %d<%d", in[i], in[j], out[i], out[j]), "feasible"
			}
		}
	}
	if binding {
		return "", "feasible-binding"
	}
	return "", "feasible"
}
