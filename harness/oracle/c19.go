package oracle

import (
	"strings"

	providertypes "github.com/cosmos/interchain-security/v7/x/ccv/provider/types"

	"verif/harness/world"
)

// C19: block processing never fails; a failing consumer operation is rolled back and the others continue.
// Survival is checked by the Survival monitor attached to every run; this monitor adds the fault-injection
// oracles by re-using the lifecycle (C10), removal (C11) and rewards (C16) monitors under injected faults.
type C19 struct {
	c10 *C10
	c11 *C11
	c16 *C16
	n   int

	launches     int // successful launches that created a client
	prePhase     map[string]providertypes.ConsumerPhase
	deleteFault  bool
	hitAfterWrite bool
	hits         int
}

func NewC19(w *world.World) *C19 {
	m := &C19{c10: NewC10(w), c11: NewC11(w), c16: NewC16(w)}
	m.c10.Relaxed = func(w *world.World) bool { return strings.HasPrefix(w.LastFault, "launch:") }
	m.c11.TolerateOpenChannel = func(w *world.World) bool { return m.deleteFault }
	return m
}

func (m *C19) Before(w *world.World, a *world.Action) {
	m.c10.Before(w, a)
	m.c11.Before(w, a)
	m.c16.Before(w, a)
	if a.Kind == world.KBlock && (a.Chain == "" || a.Chain == "provider") && w.P.Height > 0 {
		m.prePhase = map[string]providertypes.ConsumerPhase{}
		for _, id := range w.ConsumerIDs() {
			m.prePhase[id] = w.P.PApp.ProviderKeeper.GetConsumerPhase(w.P.Ctx(), id)
		}
	}
}

func relabel(v *Violation) *Violation {
	if v != nil {
		v.Sig = v.Property + ":" + v.Sig
		v.Property = "C19"
	}
	return v
}

func (m *C19) After(w *world.World, a *world.Action, r *world.StepResult) *Violation {
	const P = "C19"
	if r.Block != nil && r.Chain == "provider" && !r.Block.Failed() {
		if strings.HasPrefix(w.LastFault, "delete:") {
			m.deleteFault = true
		}
		if w.LastFault != "" {
			m.hits++
			// sites after the first state write of the operation
			switch w.LastFault {
			case "launch:client.CreateClient", "launch:staking.UnbondingTime", "launch:staking.GetHistoricalInfo", "launch:connection.GetConnection",
				"alloc:distribution.AllocateTokensToValidator", "alloc:distribution.FundCommunityPool", "delete:channel.ChanCloseInit", "delete:channel.GetChannel":
				m.hitAfterWrite = true
			}
		}
	}
	if v := m.c10.After(w, a, r); v != nil {
		return relabel(v)
	}
	if v := m.c11.After(w, a, r); v != nil {
		return relabel(v)
	}
	if v := m.c16.After(w, a, r); v != nil {
		return relabel(v)
	}
	if r.Block == nil || r.Chain != "provider" || r.Block.Failed() || m.prePhase == nil {
		return nil
	}
	m.n++
	ctx := w.P.Ctx()
	k := w.P.PApp.ProviderKeeper
	// every successful launch over a fresh client creates exactly one light client; failed ones leave none behind
	for _, id := range w.ConsumerIDs() {
		pre, existed := m.prePhase[id]
		ph := k.GetConsumerPhase(ctx, id)
		if existed && pre == world.PhInit && (ph == world.PhLaunched || ph == world.PhStopped) {
			if ip, err := k.GetConsumerInitializationParameters(ctx, id); err == nil && ip.ConnectionId == "" {
				m.launches++
			}
		}
	}
	clients := 0
	for _, c := range w.P.PApp.IBCKeeper.ClientKeeper.GetAllGenesisClients(ctx) {
		if strings.HasPrefix(c.ClientId, "07-tendermint-") {
			clients++
		}
	}
	if clients != m.launches {
		return violf(P, "orphan-client", "the IBC store holds %d light clients after %d successful launches (a failed launch left a client behind, or a launch lost its client)", clients, m.launches)
	}
	// packet sending: a failure for one consumer stops (or, for an inactive client, delays) that consumer only
	if strings.HasPrefix(w.LastFault, "send:") {
		victims := 0
		for _, id := range w.ConsumerIDs() {
			if m.prePhase[id] != world.PhLaunched {
				continue
			}
			ph := k.GetConsumerPhase(ctx, id)
			_, hasChan := k.GetConsumerIdToChannelId(ctx, id)
			pending := len(k.GetPendingVSCPackets(ctx, id))
			stoppedNow := ph == world.PhStopped && !touched(r, id)
			_, _ = hasChan, pending // queued packets may also stay behind because a client expired by itself
			if stoppedNow {
				victims++
				if w.LastFault == "send:channel.SendPacket.inactive" {
					return violf(P, "inactive-client-stopped-consumer", "consumer %s was stopped although sending failed only because its client is not active", id)
				}
			}
		}
		if victims > 1 {
			return violf(P, "send-fault-spread", "one injected send failure (%s) affected %d consumers", w.LastFault, victims)
		}
	}
	return nil
}

func (m *C19) NonTrivial(*world.World) bool { return m.hits > 0 }
func (m *C19) Checks() int                  { return m.n + m.c10.Checks() + m.c11.Checks() + m.c16.Checks() }
