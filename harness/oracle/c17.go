package oracle

import (
	"fmt"

	channeltypes "github.com/cosmos/ibc-go/v10/modules/core/04-channel/types"

	providertypes "github.com/cosmos/interchain-security/v7/x/ccv/provider/types"
	ccvtypes "github.com/cosmos/interchain-security/v7/x/ccv/types"

	"verif/harness/world"
)

// C17: consumers, light clients and CCV channels are bound one to one.
type C17 struct {
	n       int
	probes  int
	compete bool
	classes map[string]bool
	firstVSCChannel map[string]string // consumer chain -> channel on which its first VSC packet arrived
}

func NewC17(w *world.World) *C17 {
	return &C17{classes: map[string]bool{}, firstVSCChannel: map[string]string{}}
}

func (m *C17) Before(*world.World, *world.Action) {}

// clientOfChannel returns the light client a provider-side channel is built on.
func clientOfChannel(w *world.World, port, channel string) (string, bool) {
	ctx := w.P.Ctx()
	ch, ok := w.P.PApp.IBCKeeper.ChannelKeeper.GetChannel(ctx, port, channel)
	if !ok || len(ch.ConnectionHops) != 1 {
		return "", false
	}
	conn, ok := w.P.PApp.IBCKeeper.ConnectionKeeper.GetConnection(ctx, ch.ConnectionHops[0])
	if !ok {
		return "", false
	}
	return conn.ClientId, true
}

func (m *C17) After(w *world.World, a *world.Action, r *world.StepResult) *Violation {
	const P = "C17"
	if a.Kind == world.KProbe {
		return m.probe(w, a)
	}
	if r.Block == nil || r.Block.Failed() {
		return nil
	}
	f := w.F()
	if r.Chain != "provider" {
		// the consumer adopts the channel on which the provider's first packet arrived and keeps it
		p := f.Paths[r.Chain]
		if p == nil || r.Block.EngineHalt != "" {
			return nil
		}
		C := p.C
		for _, rec := range p.P2C {
			if rec.Packet.SourcePort == ccvtypes.ProviderPortID && rec.Delivered {
				if m.firstVSCChannel[r.Chain] == "" {
					m.firstVSCChannel[r.Chain] = rec.Packet.DestinationChannel
				}
				break
			}
		}
		got, ok := C.CApp.ConsumerKeeper.GetProviderChannel(C.Ctx())
		want := m.firstVSCChannel[r.Chain]
		if (want == "") != !ok || (ok && got != want) {
			return violf(P, "consumer-channel", "consumer chain %s: CCV channel is %q (set %v), the provider's first packet arrived on %q", r.Chain, got, ok, want)
		}
		return nil
	}
	m.n++
	ctx := w.P.Ctx()
	k := w.P.PApp.ProviderKeeper
	clientOwner := map[string]string{}
	channelOwner := map[string]string{}
	for _, id := range w.ConsumerIDs() {
		cid, hasClient := k.GetConsumerClientId(ctx, id)
		if hasClient {
			if other, dup := clientOwner[cid]; dup {
				m.compete = true
				return violf(P, "client-shared", "consumers %s and %s are both bound to light client %s", other, id, cid)
			}
			clientOwner[cid] = id
			back, ok := k.GetClientIdToConsumerId(ctx, cid)
			if !ok || back != id {
				return violf(P, "client-index", "consumer %s is bound to client %s, but the client maps back to %q (found %v)", id, cid, back, ok)
			}
		}
		ch, hasChan := k.GetConsumerIdToChannelId(ctx, id)
		if hasChan {
			if other, dup := channelOwner[ch]; dup {
				return violf(P, "channel-shared", "consumers %s and %s are both bound to channel %s", other, id, ch)
			}
			channelOwner[ch] = id
			back, ok := k.GetChannelIdToConsumerId(ctx, ch)
			if !ok || back != id {
				return violf(P, "channel-index", "consumer %s is bound to channel %s, but the channel maps back to %q (found %v)", id, ch, back, ok)
			}
			if !hasClient {
				return violf(P, "channel-without-client", "consumer %s has CCV channel %s but no client", id, ch)
			}
			if under, ok := clientOfChannel(w, ccvtypes.ProviderPortID, ch); !ok || under != cid {
				return violf(P, "channel-on-foreign-client", "consumer %s: CCV channel %s is built on client %q, its client is %s", id, ch, under, cid)
			}
			chEnd, _ := w.P.PApp.IBCKeeper.ChannelKeeper.GetChannel(ctx, ccvtypes.ProviderPortID, ch)
			if chEnd.Ordering != channeltypes.ORDERED || chEnd.Counterparty.PortId != ccvtypes.ConsumerPortID {
				return violf(P, "channel-shape", "consumer %s: CCV channel %s is %s to port %s", id, ch, chEnd.Ordering, chEnd.Counterparty.PortId)
			}
		}
	}
	// reverse indexes must not contain strangers
	for _, e := range k.GetAllChannelToConsumers(ctx) {
		if channelOwner[e.ChannelId] != e.ConsumerId {
			return violf(P, "stale-channel-index", "channel index maps %s to consumer %s, which is not bound to it", e.ChannelId, e.ConsumerId)
		}
	}
	// the provider completes the CCV handshake for at most one channel per light client
	openOn := map[string][]string{}
	endsOn := map[string]int{}
	for _, ic := range w.P.PApp.IBCKeeper.ChannelKeeper.GetAllChannels(ctx) {
		if ic.PortId != ccvtypes.ProviderPortID {
			continue
		}
		under, ok := clientOfChannel(w, ccvtypes.ProviderPortID, ic.ChannelId)
		if !ok {
			continue
		}
		if ic.State == channeltypes.OPEN || ic.State == channeltypes.TRYOPEN {
			endsOn[under]++
		}
		if ic.State == channeltypes.OPEN {
			openOn[under] = append(openOn[under], ic.ChannelId)
		}
	}
	for cl, chs := range openOn {
		if len(chs) > 1 {
			return violf(P, "two-open-channels", "the provider has %d open CCV channels %v on light client %s", len(chs), chs, cl)
		}
	}
	for _, n := range endsOn {
		if n > 1 {
			m.compete = true
			w.Label("concurrent-ccv-handshakes")
		}
	}
	// packets on a channel belong to the consumer launched with the underlying client: the relayer attributes
	// provider packets by channel -> client, and each consumer chain must only ever receive its own (C01 checks the content)
	return nil
}

// probe calls a channel-handshake callback of the provider or consumer IBC module on a branched context with
// generated parameters and compares the verdict with the conjunction stated in the property.
func (m *C17) probe(w *world.World, a *world.Action) *Violation {
	const P = "C17"
	pr := a.Probe
	if pr == nil {
		return nil
	}
	order := channeltypes.ORDERED
	if pr.Order == "unordered" {
		order = channeltypes.UNORDERED
	} else if pr.Order == "none" {
		order = channeltypes.NONE
	}
	m.probes++
	m.n++
	if pr.Side == "provider" {
		ctx, _ := w.P.Ctx().CacheContext()
		k := w.P.PApp.ProviderKeeper
		mod, ok := w.P.PApp.IBCKeeper.PortKeeper.Route(providertypes.ModuleName)
		if !ok {
			return nil
		}
		var err error
		switch pr.Callback {
		case "init":
			_, err = mod.OnChanOpenInit(ctx, order, pr.Hops, pr.Port, "channel-77", channeltypes.NewCounterparty(pr.CpPort, ""), pr.Version)
			if err == nil {
				return violf(P, "provider-init-accepted", "the provider accepted a channel opened from its own side (OnChanOpenInit %+v)", pr)
			}
			m.classes["provider-init-rejected"] = true
			w.Label("probe:provider-init-rejected")
			return nil
		case "ack":
			err = mod.OnChanOpenAck(ctx, pr.Port, "channel-77", "channel-5", pr.Version)
			if err == nil {
				return violf(P, "provider-ack-accepted", "the provider accepted OnChanOpenAck %+v", pr)
			}
			w.Label("probe:provider-ack-rejected")
			return nil
		}
		_, err = mod.OnChanOpenTry(ctx, order, pr.Hops, pr.Port, "channel-77", channeltypes.NewCounterparty(pr.CpPort, "channel-5"), pr.Version)
		want := order == channeltypes.ORDERED && pr.Port == ccvtypes.ProviderPortID && pr.CpPort == ccvtypes.ConsumerPortID && pr.Version == ccvtypes.Version && len(pr.Hops) == 1
		reason := "shape"
		if want {
			conn, ok := w.P.PApp.IBCKeeper.ConnectionKeeper.GetConnection(ctx, pr.Hops[0])
			switch {
			case !ok:
				want, reason = false, "unknown-connection"
			default:
				owner, bound := k.GetClientIdToConsumerId(ctx, conn.ClientId)
				cc, _ := k.GetConsumerClientId(ctx, owner)
				_, hasChan := k.GetConsumerIdToChannelId(ctx, owner)
				switch {
				case !bound || cc != conn.ClientId:
					want, reason = false, "foreign-client"
				case hasChan:
					want, reason = false, "second-channel"
					m.compete = true
				default:
					reason = "valid"
				}
			}
		}
		m.classes[reason] = true
		w.Label("probe:try:" + reason)
		if want && err != nil {
			return violf(P, "valid-try-rejected", "the provider rejected a CCV channel that meets every condition (%+v): %v", pr, err)
		}
		if !want && err == nil {
			return violf(P, "invalid-try-accepted", "the provider accepted a CCV channel although %s (%+v)", reason, pr)
		}
		return nil
	}
	// consumer side
	c := w.Consumer(pr.Side)
	if c == nil || c.Halted {
		return nil
	}
	ctx, _ := c.Ctx().CacheContext()
	mod, ok := c.CApp.IBCKeeper.PortKeeper.Route("consumer")
	if !ok {
		return nil
	}
	ck := c.CApp.ConsumerKeeper
	switch pr.Callback {
	case "try":
		_, err := mod.OnChanOpenTry(ctx, order, pr.Hops, pr.Port, "channel-77", channeltypes.NewCounterparty(pr.CpPort, "channel-5"), pr.Version)
		if err == nil {
			return violf(P, "consumer-try-accepted", "consumer %s accepted a channel opened from the provider side", pr.Side)
		}
		w.Label("probe:consumer-try-rejected")
		return nil
	}
	_, err := mod.OnChanOpenInit(ctx, order, pr.Hops, pr.Port, "channel-77", channeltypes.NewCounterparty(pr.CpPort, ""), pr.Version)
	_, established := ck.GetProviderChannel(ctx)
	version := pr.Version
	if version == "" || version == " " {
		version = ccvtypes.Version
	}
	want := !established && order == channeltypes.ORDERED && pr.Port == ccvtypes.ConsumerPortID && version == ccvtypes.Version && pr.CpPort == ccvtypes.ProviderPortID && len(pr.Hops) == 1
	reason := "shape"
	if established {
		reason = "already-established"
	}
	if want {
		conn, ok := c.CApp.IBCKeeper.ConnectionKeeper.GetConnection(ctx, pr.Hops[0])
		provClient, _ := ck.GetProviderClientID(ctx)
		switch {
		case !ok:
			want, reason = false, "unknown-connection"
		case conn.ClientId != provClient:
			want, reason = false, "foreign-client"
		default:
			reason = "valid"
		}
	}
	w.Label("probe:consumer-init:" + reason)
	if want && err != nil {
		return violf(P, "valid-init-rejected", "consumer %s rejected a CCV channel over its provider client (%+v): %v", pr.Side, pr, err)
	}
	if !want && err == nil {
		return violf(P, "invalid-init-accepted", "consumer %s accepted OnChanOpenInit although %s (%+v)", pr.Side, reason, pr)
	}
	return nil
}

func (m *C17) NonTrivial(*world.World) bool { return m.compete || (m.classes["valid"] && m.classes["foreign-client"]) }
func (m *C17) Checks() int                  { return m.n }

var _ = fmt.Sprint
